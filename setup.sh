#!/bin/sh
# Build the verification venv offline (idempotent). Overlay on /venv (which holds the repo's deps).
set -e
cd "$(dirname "$0")"
if [ ! -x .venv/bin/python ] || ! .venv/bin/python -c "import z3, jsonschema" 2>/dev/null; then
  rm -rf .venv
  /venv/bin/python -m venv .venv
  printf '/venv/lib/python3.12/site-packages\n' > .venv/lib/python3.12/site-packages/_verif.pth
  PIP_NO_INDEX=1 .venv/bin/pip install -q --no-index --find-links /opt/veriftools/wheels z3-solver jsonschema crosshair-tool
fi
.venv/bin/python -c "import z3; print('z3', z3.get_version_string())"
