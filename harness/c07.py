"""C07 - CSS codec: round trip, CSS 2.1 encoding detection, chunking invariance.

1. detector   detectencoding_str on inputs whose bytes are all solver variables (length 0..4 free; and
              b'@charset "' + symbolic name/tail), `final` both ways: when final the answer equals the
              CSS 2.1 4.4 decision list (ref/css_encoding.py); when not final the answer is None or equals
              the final answer of EVERY extension (a second symbolic tail) - "unknown yet, never wrong".
2. text side  detectencoding_unicode / _fixencoding on every proper prefix of '@charset "' plus symbolic
              characters, and on complete headers with symbolic names: docstring contract.
3. round trip codec.encode then codec.decode (encoding given / auto-detected), header rewritten, for text =
              optional header + symbolic body, over the nine modelled encodings.
4. chunking   IncrementalDecoder / IncrementalEncoder / StreamReader.decode / StreamWriter.encode: feeding
              u[:c] then u[c:] (c a solver variable) gives the one-shot result, for every u of (3).
"""
from . import common

PROP = 'C07'

ENCODINGS = ['utf-8', 'utf-8-sig', 'utf-16', 'utf-16-le', 'utf-16-be', 'utf-32', 'utf-32-le', 'utf-32-be',
             'latin-1', 'ascii']
PREFIX = '@charset "'


def _name_str(x):
    """encoding answer as comparable text (impl returns str, reference may return bytes)"""
    from sx.symstr import SymStr, SymBytes
    if isinstance(x, SymBytes):
        return SymStr.mk(x.ch)
    if isinstance(x, (bytes, bytearray)):
        return x.decode('latin-1')
    return x


def _same_answer(a, b):
    """(enc, explicit) pairs equal -> bool / SymBool"""
    from sx.core import sym_and
    if a[1] != b[1]:
        return False
    ea, eb = _name_str(a[0]), _name_str(b[0])
    if ea is None or eb is None:
        return ea is None and eb is None
    return ea == eb


def run_detector(n, prefix=b'', ext=0):
    cssutils = common.setup_lifted()
    from cssutils import codec
    from sx.symstr import fresh_bytes
    from sx.core import fresh_bool, sym_and
    from ref import css_encoding as R

    def fn():
        body = fresh_bytes(n) if n else b''
        data = prefix + body if prefix else body
        final = fresh_bool('final')
        inputs = {'data': data, 'final': final}
        common.set_inputs(inputs)
        info = {'in': inputs, 'tags': []}
        fin = bool(final)
        try:
            got = codec.detectencoding_str(data, fin)
        except Exception as e:
            info['note'] = 'raised %s: %s' % (type(e).__name__, e)
            return False, info
        if fin:
            want = R.detect_final(data)
            info['tags'].append('final')
            if got[0] is None:
                info['note'] = 'final call answered "unknown yet"'
                return False, info
            return _same_answer(got, want), info
        if got[0] is None:
            info['tags'].append('unknown-yet')
            return True, info
        info['tags'].append('early-answer')
        # every extension must have this final answer
        conds = []
        for k in range(0, ext + 1):
            tail = fresh_bytes(k, prefix='e') if k else b''
            full = data + tail if k else data
            inputs['extension_%d' % k] = tail
            conds.append(_same_answer(got, R.detect_final(full)))
        return sym_and(*conds), info

    return common.explore(fn, 'detector(n=%d,prefix=%r,ext=%d)' % (n, prefix, ext), path_timeout_s=120.0)


def run_textside(k, n, complete):
    """text = PREFIX[:k] + n symbolic chars (+ '"' + tail if complete)"""
    cssutils = common.setup_lifted()
    from cssutils import codec
    from sx.symstr import fresh_str
    from sx.core import fresh_bool, sym_and
    from ref import css_encoding as R

    def fn():
        s = fresh_str(n) if n else ''
        text = PREFIX[:k] + s
        if complete:
            text = text + '";a{}'
        final = bool(fresh_bool('final'))
        inputs = {'text': text, 'final': final, 'newenc': 'utf-16'}
        common.set_inputs(inputs)
        info = {'in': inputs, 'tags': ['final' if final else 'nonfinal']}
        got = codec.detectencoding_unicode(text, final)
        fixed = codec._fixencoding(text, 'utf-16', final)
        conds = []
        want = R.detect_unicode_final(text)
        wantfix = R.fix_encoding_final(text, 'utf-16')
        if final:
            if got[0] is None or fixed is None:
                info['note'] = 'final call answered "unknown yet"'
                return False, info
            conds.append(_same_answer(got, want))
            conds.append(fixed == wantfix)
        else:
            # None only if the text can still become a header; a definite answer must be the final one
            could_be_header = _could_become_header(text)
            if got[0] is None:
                if could_be_header is False:
                    info['note'] = 'answered "unknown yet" although the text cannot become an @charset header'
                    return False, info
                conds.append(could_be_header)
            else:
                conds.append(_same_answer(got, want))
            if fixed is None:
                conds.append(could_be_header)
            else:
                conds.append(fixed == wantfix)
        return sym_and(*conds), info

    return common.explore(fn, 'textside(k=%d,n=%d,complete=%s)' % (k, n, complete))


def _could_become_header(text):
    """text is a proper prefix of '@charset "<name>"' for some name: either a prefix of PREFIX or
    PREFIX followed by characters without a closing quote"""
    from sx.core import sym_and, sym_not
    m = min(len(text), len(PREFIX))
    head = (text[:m] == PREFIX[:m])
    if len(text) <= len(PREFIX):
        return head
    rest = text[len(PREFIX):]
    noquote = sym_not(rest.contains('"')) if hasattr(rest, 'contains') else ('"' not in rest)
    return sym_and(head, noquote)


def _body(n):
    """symbolic body of n scalar values whose first character's encodings cannot be mistaken for a
    byte-order mark (not U+0000, and low 16 bits not FEFF / FFFE)"""
    from sx.symstr import fresh_str
    from sx.mask import Mask
    from sx.core import eng
    import z3
    if not n:
        return ''
    body = fresh_str(n, mask=Mask.rng(0, 0x10FFFF).minus(Mask.rng(0xD800, 0xDFFF)))
    c0 = body.ch[0]
    eng().assume(z3.And(c0 != 0, c0 % 65536 != 0xFEFF, c0 % 65536 != 0xFFFE))
    return body


def _text(header_enc, body):
    return ('@charset "%s";' % header_enc if header_enc else '') + body


def run_roundtrip(enc, header, n, force=True):
    cssutils = common.setup_lifted()
    from cssutils import codec
    from sx.symstr import fresh_str
    from sx.mask import Mask
    from sx.core import sym_and
    from ref import css_encoding as R

    def fn():
        body = _body(n)
        text = _text(header, body)
        inputs = {'text': text, 'encoding': enc, 'force': force}
        common.set_inputs(inputs)
        info = {'in': inputs, 'tags': []}
        try:
            data, consumed = codec.encode(text, encoding=enc)
        except UnicodeEncodeError:
            info['tags'].append('unencodable')
            return True, info
        except Exception as e:
            info['note'] = 'encode raised %s: %s' % (type(e).__name__, e)
            return False, info
        info['tags'].append('encoded')
        want = R.fix_encoding_final(text, enc)
        try:
            back, _ = codec.decode(data, encoding=enc, force=force)
        except Exception as e:
            info['note'] = 'decode(encoding=%s) raised %s: %s' % (enc, type(e).__name__, str(e)[:100])
            return False, info
        conds = [back == want]
        # auto-detection when the bytes carry a BOM or an ASCII-compatible @charset rule
        if enc in ('utf-8-sig', 'utf-16', 'utf-32') or (header and enc in ('utf-8', 'latin-1', 'ascii')):
            try:
                auto, _ = codec.decode(data)
            except Exception as e:
                info['note'] = 'auto-detecting decode raised %s: %s' % (type(e).__name__, str(e)[:100])
                return False, info
            conds.append(auto == want)
            info['tags'].append('auto')
        return sym_and(*conds), info

    return common.explore(fn, 'roundtrip(%s,header=%s,n=%d,force=%s)' % (enc, header, n, force),
                          path_timeout_s=120.0)


def run_chunking(kind, enc, header, n):
    cssutils = common.setup_lifted()
    from cssutils import codec
    from sx.symstr import fresh_str, SymStr
    from sx.mask import Mask
    from sx.core import fresh_int, sym_and
    from sx import symre
    import io

    def cat(a, b, is_bytes):
        return symre._join([a, b], is_bytes)

    def fn():
        body = _body(n)
        text = _text(header, body)
        inputs = {'kind': kind, 'text': text, 'encoding': enc}
        common.set_inputs(inputs)
        info = {'in': inputs, 'tags': []}
        try:
            data, _ = codec.encode(text, encoding=enc)
        except UnicodeEncodeError:
            info['tags'].append('unencodable')
            return True, info
        if kind in ('incdec', 'incdec-auto', 'reader'):
            u = data
            is_bytes = True
        else:
            u = text
            is_bytes = False
        c = fresh_int('cut', 0, len(u))
        inputs['cut'] = c
        ci = int(c)
        a, b = u[:ci], u[ci:]
        try:
            if kind == 'incdec':
                one = codec.IncrementalDecoder(encoding=enc).decode(u, True)
                d = codec.IncrementalDecoder(encoding=enc)
                two = cat(d.decode(a, False), d.decode(b, True), False)
            elif kind == 'incdec-auto':
                one = codec.IncrementalDecoder().decode(u, True)
                d = codec.IncrementalDecoder()
                two = cat(d.decode(a, False), d.decode(b, True), False)
            elif kind == 'incenc':
                one = codec.IncrementalEncoder(encoding=enc).encode(u, True)
                d = codec.IncrementalEncoder(encoding=enc)
                two = cat(d.encode(a, False), d.encode(b, True), True)
            elif kind == 'incenc-auto':
                one = codec.IncrementalEncoder().encode(u, True)
                d = codec.IncrementalEncoder()
                two = cat(d.encode(a, False), d.encode(b, True), True)
            else:
                raise ValueError(kind)
        except (UnicodeError, LookupError) as e:
            info['tags'].append('coder-error')
            return True, info
        except Exception as e:
            info['note'] = '%s raised %s: %s' % (kind, type(e).__name__, str(e)[:120])
            return False, info
        info['tags'].append('chunked')
        r = (one == two)
        if r is False:
            info['note'] = 'chunked result has a different length than the one-shot result'
        return r, info

    return common.explore(fn, 'chunking(%s,%s,header=%s,n=%d)' % (kind, enc, header, n), path_timeout_s=120.0,
                          realise_cap=256)


def jobs(tier):
    out = []
    for n in range(0, 5):
        out.append(('harness.c07', 'run_detector', dict(n=n, ext=4 if n < 4 else 2)))
    for tail in range(0, 3 if tier == 'quick' else 4):
        out.append(('harness.c07', 'run_detector', dict(n=tail, prefix=b'@charset "', ext=2)))
        out.append(('harness.c07', 'run_detector', dict(n=tail, prefix=b'\xef\xbb\xbf@charset "', ext=1)))
    for pre in (b'@\x00c\x00', b'\x00@\x00c', b'\xff\xfe', b'\xfe\xff', b'\x00\x00\xfe', b'@cha', b'@\x00\x00\x00'):
        out.append(('harness.c07', 'run_detector', dict(n=2, prefix=pre, ext=2)))
    for k in range(0, len(PREFIX) + 1):
        for n in (0, 1, 2):
            out.append(('harness.c07', 'run_textside', dict(k=k, n=n, complete=False)))
    for n in (0, 1, 2, 3):
        out.append(('harness.c07', 'run_textside', dict(k=len(PREFIX), n=n, complete=True)))
    nb = 2 if tier == 'quick' else 3
    for enc in ENCODINGS:
        for header in (None, enc, 'x'):
            for n in range(0, nb + 1):
                out.append(('harness.c07', 'run_roundtrip', dict(enc=enc, header=header, n=n)))
            out.append(('harness.c07', 'run_roundtrip', dict(enc=enc, header=header, n=1, force=False)))
            for kind in ('incdec', 'incdec-auto', 'incenc', 'incenc-auto'):
                out.append(('harness.c07', 'run_chunking', dict(kind=kind, enc=enc, header=header, n=1)))
                if tier != 'quick':
                    out.append(('harness.c07', 'run_chunking', dict(kind=kind, enc=enc, header=header, n=2)))
    return out


def main(tier):
    rep = common.Report(PROP, tier)
    results = common.run_jobs(jobs(tier))
    rep.add_results(results)
    cases = []
    for r in results:
        cases.extend(r['cex'])
        for t in r['timeouts']:
            if t.get('inputs'):
                cases.append({'job': r['job'], 'inputs': t['inputs'], 'note': 'path time budget exceeded'})
    rep.handle_counterexamples(cases)
    rep.bounds = {
        'detector': 'every byte string of length 0..4 (all bytes solver variables), headers with 0..3 symbolic name/'
                    'tail bytes, final symbolic; non-final answers checked against every extension of up to 4 bytes',
        'text side': "every proper prefix of '@charset \"' followed by <= 2 arbitrary characters; complete headers "
                     'with names of <= 3 arbitrary characters',
        'round trip': 'header none / matching / foreign name, body of <= %d arbitrary scalar values, %d encodings'
                      % (2 if tier == 'quick' else 3, len(ENCODINGS)),
        'chunking': 'every 2-partition (cut position a solver variable) of the inputs of the round trip with body '
                    'length <= %d; incremental decoder and encoder, with and without given encoding' % (
                        1 if tier == 'quick' else 2),
    }
    rep.assumptions = ['pure-Python codec models sx/pycodecs.py (validated against the C codecs)',
                       'round trip / chunking: the text does not begin with U+0000 or with a character whose low 16 bits '
                       'are FEFF / FFFE (their encodings are indistinguishable from a byte-order mark)',
                       'two chunks + the final call stand for every partition by induction over the number of chunks '
                       '(the coder state after the first chunk is arbitrary-reachable)']
    rep.stubs = ['codecs: sx/pycodecs.py incremental and one-shot coders']
    rep.outside = ['getstate/setstate (marshal)', 'legacy single-byte encodings other than latin-1/ascii',
                   'error modes other than strict', 'StreamReader/StreamWriter (file objects)']
    rep.witness_required = ['final', 'unknown-yet', 'early-answer', 'encoded', 'auto', 'chunked']
    return rep.finish()


# ---------------------------------------------------------------------- replay (unlifted)

def replay(case):
    import cssutils
    from cssutils import codec
    from ref import css_encoding as R
    inp = common.unjson(case['inputs'])
    job = case['job']
    if job.startswith('detector'):
        data, final = inp['data'], inp['final']
        got = codec.detectencoding_str(data, final)
        if final:
            want = R.detect_final(data)
            if _same_answer(got, want):
                return {'reproduced': False, 'detail': 'detector agrees: %r' % (got,)}
            return {'reproduced': True,
                    'detail': 'detectencoding_str(%r, final=True) = %r, CSS 2.1 4.4 gives %r' % (data, got, want),
                    'fields': {'symptom': 'detector-final', 'got': str(got[0]), 'want': str(_name_str(want[0])),
                               'len': len(data), 'head': data[:4].hex()}}
        if got[0] is None:
            return {'reproduced': False, 'detail': 'unknown yet'}
        for k in range(0, 5):
            ext = inp.get('extension_%d' % k)
            if ext is None:
                continue
            want = R.detect_final(data + ext)
            if not _same_answer(got, want):
                return {'reproduced': True,
                        'detail': 'detectencoding_str(%r, final=False) already answers %r, but the extension %r is %r'
                                  % (data, got, data + ext, want),
                        'fields': {'symptom': 'detector-early-wrong', 'got': str(got[0]), 'head': data[:4].hex()}}
        return {'reproduced': False, 'detail': 'early answer %r is right for the listed extensions' % (got,)}
    if job.startswith('textside'):
        text, final = inp['text'], inp['final']
        got = codec.detectencoding_unicode(text, final)
        fixed = codec._fixencoding(text, 'utf-16', final)
        want = R.detect_unicode_final(text)
        wantfix = R.fix_encoding_final(text, 'utf-16')
        could = bool(_could_become_header(text))
        problems = []
        if final:
            if got != want:
                problems.append('detectencoding_unicode -> %r, expected %r' % (got, want))
            if fixed != wantfix:
                problems.append('_fixencoding -> %r, expected %r' % (fixed, wantfix))
        else:
            if got[0] is None and not could:
                problems.append('detectencoding_unicode answers unknown-yet for a text that cannot become a header')
            if got[0] is not None and got != want:
                problems.append('detectencoding_unicode -> %r early, final answer %r' % (got, want))
            if fixed is None and not could:
                problems.append('_fixencoding answers unknown-yet for a text that cannot become a header')
            if fixed is not None and fixed != wantfix:
                problems.append('_fixencoding -> %r early, final %r' % (fixed, wantfix))
        if not problems:
            return {'reproduced': False, 'detail': 'text side agrees for %r' % text}
        return {'reproduced': True, 'detail': 'text %r final=%s: %s' % (text, final, '; '.join(problems)),
                'fields': {'symptom': 'textside', 'text': text, 'final': final,
                           'unterminated_header_final': bool(final and text.startswith(PREFIX)
                                                             and '"' not in text[len(PREFIX):])}}
    if job.startswith('roundtrip'):
        text, enc = inp['text'], inp['encoding']
        try:
            data, _ = codec.encode(text, encoding=enc)
        except UnicodeEncodeError:
            return {'reproduced': False, 'detail': 'unencodable'}
        want = R.fix_encoding_final(text, enc)
        problems = []
        try:
            back, _ = codec.decode(data, encoding=enc, force=inp['force'])
            if back != want:
                problems.append('decode(encoding) -> %r, expected %r' % (back, want))
        except Exception as e:
            problems.append('decode(encoding) raised %r' % e)
        if enc in ('utf-8-sig', 'utf-16', 'utf-32') or ('@charset' in text and enc in ('utf-8', 'latin-1', 'ascii')):
            try:
                auto, _ = codec.decode(data)
                if auto != want:
                    problems.append('auto-detected decode -> %r, expected %r' % (auto, want))
            except Exception as e:
                problems.append('auto-detected decode raised %r' % e)
        if not problems:
            return {'reproduced': False, 'detail': 'round trip fine'}
        return {'reproduced': True, 'detail': 'text %r encoding %s (bytes %r): %s' % (text, enc, data, '; '.join(problems)),
                'fields': {'symptom': 'roundtrip', 'encoding': enc, 'text': text,
                           'header_foreign': text.startswith('@charset "x"')}}
    if job.startswith('chunking'):
        kind, text, enc, c = inp['kind'], inp['text'], inp['encoding'], inp['cut']
        try:
            data, _ = codec.encode(text, encoding=enc)
        except UnicodeEncodeError:
            return {'reproduced': False, 'detail': 'unencodable'}
        u = data if kind.startswith('incdec') else text
        a, b = u[:c], u[c:]
        try:
            if kind == 'incdec':
                one = codec.IncrementalDecoder(encoding=enc).decode(u, True)
                d = codec.IncrementalDecoder(encoding=enc)
                two = d.decode(a, False) + d.decode(b, True)
            elif kind == 'incdec-auto':
                one = codec.IncrementalDecoder().decode(u, True)
                d = codec.IncrementalDecoder()
                two = d.decode(a, False) + d.decode(b, True)
            elif kind == 'incenc':
                one = codec.IncrementalEncoder(encoding=enc).encode(u, True)
                d = codec.IncrementalEncoder(encoding=enc)
                two = d.encode(a, False) + d.encode(b, True)
            else:
                one = codec.IncrementalEncoder().encode(u, True)
                d = codec.IncrementalEncoder()
                two = d.encode(a, False) + d.encode(b, True)
        except (UnicodeError, LookupError) as e:
            return {'reproduced': False, 'detail': 'coder error %r' % e}
        except Exception as e:
            return {'reproduced': True, 'detail': '%s on %r cut at %d raised %r' % (kind, u, c, e),
                    'fields': {'symptom': 'chunking-raises', 'kind': kind, 'encoding': enc, 'exc': type(e).__name__}}
        if one == two:
            return {'reproduced': False, 'detail': 'chunking invariant'}
        return {'reproduced': True,
                'detail': '%s (%s): input %r cut at %d gives %r, one-shot gives %r' % (kind, enc, u, c, two, one),
                'fields': {'symptom': 'chunking-differs', 'kind': kind, 'encoding': enc, 'cut': c}}
    return {'reproduced': False, 'detail': 'unknown job'}
