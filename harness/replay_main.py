"""Replay counterexamples on the *unlifted* package in a fresh interpreter.

usage: python -m harness.replay_main <PROP> <case.json>...   (PYTHONPATH must hold the repo)
Each harness module exposes replay(case) -> {'reproduced': bool, 'detail': str, 'fields': {...}}
and must not import the lifting machinery at module level."""
import importlib
import json
import signal
import sys


class _Timeout(BaseException):
    pass


def main():
    prop = sys.argv[1]
    mod = importlib.import_module('harness.%s' % prop.lower())
    import cssutils  # noqa: F401  (unlifted)
    assert 'sx.lift' not in sys.modules, 'replay must run on the unlifted package'
    out = []

    def on_alarm(signum, frame):
        raise _Timeout()
    signal.signal(signal.SIGALRM, on_alarm)
    for p in sys.argv[2:]:
        with open(p) as f:
            case = json.load(f)['case']
        signal.setitimer(signal.ITIMER_REAL, 20.0)
        try:
            r = mod.replay(case)
        except _Timeout:
            r = {'reproduced': True, 'detail': 'replay did not terminate within 20 s',
                 'fields': {'symptom': 'hang'}}
        except Exception as e:  # a crash of the replay itself is a harness problem
            import traceback
            r = {'reproduced': False, 'detail': 'replay crashed: %r %s' % (e, traceback.format_exc()[-800:])}
        finally:
            signal.setitimer(signal.ITIMER_REAL, 0)
        out.append(r)
    print('REPLAY-RESULTS ' + json.dumps(out))


if __name__ == '__main__':
    main()
