"""C04 - Syntax errors are contained: only the malformed construct is dropped.

Symbolic harnesses (the damage G is a string of every length <= n over the reduced alphabet, kept on
a path only if it is lexically balanced: brackets / braces / quotes closed, nothing left open):

  decl   carriers  a{x:1; G; y:2}  (also as a style attribute, inside @media, @page, @font-face):
         items(parse(pre G ; post)) == items(parse(pre G)) ++ items(post)   and starts with items(pre)
  stmt   carriers  a{x:1} G b{y:2}  with G = <s>{}  |  @<s>;  |  @<s>{}  (also inside @media):
         rules(parse(A G B)) == rules(parse(A G)) ++ rules(parse(B))        and starts with rules(parse(A))

i.e. whatever the damaged part turns into (nothing, or a construct of its own if it happens to be
well-formed), the constructs before and after it are present and unchanged.  The oracle needs no
model of what G means.

Truncation (bounded exhaustive, concrete): every prefix of every skeleton sheet: all rules and
declarations complete before the cut are present and unchanged.
"""
from . import common, projection
from .c03 import lexically_complete

PROP = 'C04'

# (name, before, after, level, wrapper) : text = before + G + after
DECL_CARRIERS = [
    ('style', 'a{x:1;', ';y:2}', 'sheet'),
    ('style-first', 'a{', ';y:2}', 'sheet'),
    ('style-noval', 'a{x:1;z', ';y:2}', 'sheet'),
    ('style-colon', 'a{x:1;z:', ';y:2}', 'sheet'),
    ('attr', 'x:1;', ';y:2', 'style'),
    ('media', '@media tv{a{x:1;', ';y:2}}', 'sheet'),
    ('page', '@page{x:1;', ';y:2}', 'sheet'),
    ('fontface', '@font-face{x:1;', ';y:2}', 'sheet'),
]
STMT_CARRIERS = [
    ('block', 'a{x:1}', '{} b{y:2}'),
    ('at-semicolon', 'a{x:1} @', '; b{y:2}'),
    ('at-block', 'a{x:1} @', '{} b{y:2}'),
    ('at-block2', 'a{x:1} @x ', '{c{d:e}} b{y:2}'),
    ('media-inner', '@media tv{a{x:1}', '{} b{y:2}}'),
    ('media-at', '@media tv{a{x:1} @', '; b{y:2}}'),
    ('first', '', '{} b{y:2}'),
    ('selector', 'a{x:1} c', '{z:0} b{y:2}'),
    ('misplaced', 'a{x:1} @import "i"', '; b{y:2}'),
    ('misplaced2', 'a{x:1} @charset "', '"; b{y:2}'),
    ('misplaced3', 'a{x:1} @namespace ', ' "u"; b{y:2}'),
]

SKELETONS = [
    ['@charset "utf-8";', '@import "x" tv;', '@namespace p "u";', 'a,b>c{x:1;y:f(2,3) !important}',
     '@media tv and (min-width:1px){d{z:url(q)}e{w:"s"}}', '@page :first{margin:1px;@top-left{v:1}}',
     '@font-face{font-family:n;src:url(u)}', '@x y{z}', '/*c*/', 'p|e[a="b"]:not(.k)::after{u:#abc 1.5em/2}'],
    ['a{b:c}', 'd{e:f;g:h}', '@media print{i{j:k}}', 'l{m:n}'],
]


def _balanced_no_top(cssutils, g, forbid_top):
    """G is lexically complete and has none of the characters forbid_top outside brackets"""
    from cssutils.tokenize2 import Tokenizer
    if not lexically_complete(cssutils, g):
        return False
    depth = 0
    for ty, val, _, _ in Tokenizer().tokenize(g):
        if ty == 'FUNCTION':
            depth += 1
        elif ty == 'CHAR':
            if depth == 0 and val in tuple(forbid_top):
                return False
            if val in ('{', '[', '('):
                depth += 1
            elif val in ('}', ']', ')'):
                depth -= 1
        elif ty in ('CDO', 'CDC') and depth == 0:
            pass
    return True


def _independent(cssutils, before, g, after):
    """inserting G is inserting a token sequence: the tokens of before+G+after are the tokens of
    before, of G and of after (no token straddles a boundary, e.g. a trailing backslash escaping the
    carrier's next character, or a line break inside the carrier's string)"""
    from cssutils.tokenize2 import Tokenizer
    tk = Tokenizer()

    def toks(t):
        return [(x[0], x[1]) for x in tk.tokenize(t)] if len(t) else []
    whole = toks(before + g + after)
    parts = toks(before) + toks(g) + toks(after)
    if len(whole) != len(parts):
        return False
    for a, b in zip(whole, parts):
        if a[0] != b[0] or not (a[1] == b[1]):
            return False
    return True


def _forbid(kind, carrier):
    """characters that may not occur at the top level of the damage: ';' always (it would end the
    construct early); '{' too where the carrier terminates the damaged at-rule with ';' (a block
    would end the at-rule and leave a stray ';' that belongs to the next statement)"""
    if kind == 'stmt' and carrier[2].startswith(';'):
        return ';{'
    return ';'


def _items(cssutils, text, level):
    p = cssutils.CSSParser(validate=False, fetcher=lambda url: None)
    if level == 'style':
        return projection.style(p.parseStyle(text))[1]
    return projection.sheet(p.parseString(text))[1]


def _decl_items(proj_rules, name):
    """the declaration items of the carrier's block"""
    r = proj_rules[0]
    if name == 'media':
        r = r[3][0]
    if r[0] == 'style':
        return r[2]
    if r[0] == 'page':
        return r[2]
    if r[0] == 'fontface':
        return r[1]
    raise AssertionError(r[0])


def check_decl(cssutils, name, before, after, level, g):
    closing = after[after.index('y:2') + 3:]
    full = before + g + after
    head = before + g + ';' + closing             # without the good declaration that follows
    pre_only = before.rstrip(';') + closing if before.rstrip('{;').strip() else None
    tail = [('prop', 'y', 'y', [('DIMENSION' if False else 'NUMBER', '2')], '')]
    if level == 'style':
        it_full = _items(cssutils, full, 'style')
        it_head = _items(cssutils, head, 'style')
    else:
        it_full = _decl_items(_items(cssutils, full, 'sheet'), name)
        it_head = _decl_items(_items(cssutils, head, 'sheet'), name)
    ok_tail = projection.eq(it_full, list(it_head) + tail)
    ok_head = True
    if 'x:1' in before:
        first = ('prop', 'x', 'x', [('NUMBER', '1')], '')
        ok_head = bool(it_full) and projection.eq(it_full[0], first)
    return ok_tail, ok_head, it_full, it_head


def check_stmt(cssutils, name, before, after, g):
    iB = after.index('b{y:2}')
    wrap_close = after[iB + len('b{y:2}'):]
    full = before + g + after
    head = before + g + after[:iB] + wrap_close
    r_full = _items(cssutils, full, 'sheet')
    r_head = _items(cssutils, head, 'sheet')
    good_b = ('style', [('sel', 'b', [0, 0, 0, 1], [('type-selector', [None, 'b'])])],
              [('prop', 'y', 'y', [('NUMBER', '2')], '')])
    good_a = ('style', [('sel', 'a', [0, 0, 0, 1], [('type-selector', [None, 'a'])])],
              [('prop', 'x', 'x', [('NUMBER', '1')], '')])
    if name.startswith('media'):
        if not r_full or r_full[0][0] != 'mediarule' or not r_head or r_head[0][0] != 'mediarule':
            return False, False, r_full, r_head
        r_full, r_head = r_full[0][3], r_head[0][3]
    ok_tail = projection.eq(r_full, list(r_head) + [good_b])
    ok_head = True
    if before.lstrip('@media tv{').startswith('a{x:1}') or before.startswith('a{x:1}'):
        ok_head = bool(r_full) and projection.eq(r_full[0], good_a)
    return ok_tail, ok_head, r_full, r_head


def run_damage(kind, cindex, n, path_timeout_s=60.0, split=None):
    cssutils = common.setup_lifted()
    from sx.symstr import fresh_str, reduced_alphabet
    from sx.core import sym_and
    from sx.mask import Mask
    amask = reduced_alphabet().minus(Mask.rng(0xD800, 0xDFFF))
    cssutils.ser.prefs.keepEmptyRules = True
    carrier = (DECL_CARRIERS if kind == 'decl' else STMT_CARRIERS)[cindex]

    def fn():
        g = fresh_str(n, mask=amask) if n else ''
        if split is not None and n:
            from .c05 import _split_mask
            from sx.core import eng
            m = _split_mask(split)
            eng().assume(m.formula(g.ch[0]), {g.ch[0].get_id(): (g.ch[0], m.inter(amask))})
        inputs = {'kind': kind, 'carrier': carrier[0], 'damage': g}
        common.set_inputs(inputs)
        info = {'in': inputs, 'tags': []}
        cssutils.log.raiseExceptions = True
        if (not _balanced_no_top(cssutils, g, _forbid(kind, carrier))
                or not _independent(cssutils, carrier[1], g, carrier[2])
                or not lexically_complete(cssutils, carrier[1] + g + carrier[2])):
            info['tags'].append('unbalanced-damage')
            return True, info
        info['tags'].append('balanced-damage')
        try:
            if kind == 'decl':
                ok_tail, ok_head, a, b = check_decl(cssutils, carrier[0], carrier[1], carrier[2], carrier[3], g)
            else:
                ok_tail, ok_head, a, b = check_stmt(cssutils, carrier[0], carrier[1], carrier[2], g)
        except Exception as e:
            info['note'] = 'raised %s: %s' % (type(e).__name__, str(e)[:150])
            return False, info
        if ok_tail is False:
            info['note'] = 'the construct after the damage is missing or changed'
            return False, info
        if ok_head is False:
            info['note'] = 'the construct before the damage is missing or changed'
            return False, info
        return sym_and(ok_tail, ok_head), info

    return common.explore(fn, 'damage(%s,%s,n=%d,split=%s)' % (kind, carrier[0], n, split),
                          path_timeout_s=path_timeout_s)


def truncation_cases():
    """(skeleton index, cut position)"""
    for si, sk in enumerate(SKELETONS):
        text = ''.join(sk)
        for c in range(len(text) + 1):
            yield si, c


def check_truncation(cssutils, si, cut):
    """returns None if fine, else a description"""
    sk = SKELETONS[si]
    text = ''.join(sk)
    p = cssutils.CSSParser(validate=False, fetcher=lambda url: None)
    full = projection.sheet(p.parseString(text))[1]
    got = projection.sheet(p.parseString(text[:cut]))[1]
    # statements complete before the cut
    pos = 0
    complete = 0
    for st in sk:
        pos += len(st)
        if pos <= cut:
            complete += 1
    # rule index: every skeleton statement yields exactly one rule
    if len(full) != len(sk):
        return 'skeleton does not parse to one rule per statement (%d vs %d)' % (len(full), len(sk))
    for i in range(complete):
        if i >= len(got) or got[i] != full[i]:
            return 'rule %d (%r) complete before cut %d is missing or changed: %r' % (
                i, sk[i], cut, got[i] if i < len(got) else None)
    # declarations complete before the cut inside the cut statement (style rules only)
    if complete < len(sk) and full[complete][0] == 'style' and complete < len(got) and got[complete][0] == 'style':
        start = pos_of(sk, complete)
        inner = text[start:cut]
        if '{' in inner:
            body = inner[inner.index('{') + 1:]
            ndecl = body.count(';')
            want = [it for it in full[complete][2] if it[0] == 'prop'][:ndecl]
            have = [it for it in got[complete][2] if it[0] == 'prop'][:ndecl]
            if want != have:
                return 'declarations complete before cut %d changed: %r vs %r' % (cut, have, want)
    return None


def pos_of(sk, i):
    return sum(len(s) for s in sk[:i])


def run_truncation(si):
    cssutils = common.setup_lifted()
    cssutils.ser.prefs.keepEmptyRules = True
    res = {'job': 'truncation(%d)' % si, 'cex': [], 'timeouts': [], 'tags': {}, 'samples': [],
           'functions': [], 'errors': [], 'cex_total': 0,
           'stats': {'paths': 0, 'decisions': 0, 'queries': 0, 'solver_time_s': 0, 'unknown_queries': 0,
                     'inconclusive_paths': [], 'realisations': 0, 'budget_exhausted': False}, 'wall_s': 0}
    n = 0
    for s, c in truncation_cases():
        if s != si:
            continue
        n += 1
        cssutils.log.raiseExceptions = True
        try:
            d = check_truncation(cssutils, s, c)
        except Exception as e:
            d = 'raised %s: %s' % (type(e).__name__, e)
        if d:
            res['cex'].append({'job': res['job'], 'inputs': {'kind': 'truncation', 'skeleton': s, 'cut': c},
                               'note': d})
    res['stats']['paths'] = n
    res['tags']['truncation'] = n
    return res


CORE_DECL = ['style']
CORE_STMT = ['block']


def jobs(tier):
    out = []
    nall = 2 if tier == 'quick' else 3
    ncore = 3 if tier == 'quick' else 4
    from .c05 import SPLITS
    for kind, carriers, core in (('decl', DECL_CARRIERS, CORE_DECL), ('stmt', STMT_CARRIERS, CORE_STMT)):
        for i, c in enumerate(carriers):
            for n in range(0, (ncore if c[0] in core else nall) + 1):
                if n >= 3:
                    for name, _ in SPLITS:
                        out.append(('harness.c04', 'run_damage', dict(kind=kind, cindex=i, n=n, split=name)))
                else:
                    out.append(('harness.c04', 'run_damage', dict(kind=kind, cindex=i, n=n)))
    out.sort(key=lambda j: -j[2]['n'])
    for si in range(len(SKELETONS)):
        out.append(('harness.c04', 'run_truncation', dict(si=si)))
    return out


def main(tier):
    rep = common.Report(PROP, tier)
    results = common.run_jobs(jobs(tier))
    rep.add_results(results)
    cases = []
    for r in results:
        cases.extend(r['cex'])
        for t in r['timeouts']:
            if t.get('inputs'):
                cases.append({'job': r['job'], 'inputs': t['inputs'], 'note': 'path time budget exceeded'})
    rep.handle_counterexamples(cases)
    rep.bounds = {
        'damage': 'every lexically balanced string of length <= %s over the reduced alphabet' % (
            '2 (3 for core carriers)' if tier == 'quick' else '3 (4 for core carriers)'),
        'carriers': '%d declaration-level and %d statement-level carriers' % (len(DECL_CARRIERS), len(STMT_CARRIERS)),
        'truncation': 'every prefix of %d skeleton sheets (concrete, bounded exhaustive: %d cuts)' % (
            len(SKELETONS), sum(len(''.join(s)) + 1 for s in SKELETONS)),
    }
    rep.assumptions = ['balanced = lexically complete per the tokenizer (no INVALID token, nothing completed at end of '
                       'input, brackets matched), no top-level ";", and token-independent of the carrier (the tokens of '
                       'before+G+after are those of before, G and after)',
                       'reduced alphabet without lone surrogates', 'validation off']
    rep.stubs = ['logging: StubLog', 'fetcher: returns None']
    rep.outside = ['damage longer than the bound', 'nesting deeper than the carriers',
                   'truncation is enumerated concretely (no solver quantification)']
    rep.witness_required = ['balanced-damage', 'unbalanced-damage', 'truncation']
    return rep.finish()


# ---------------------------------------------------------------------- replay (unlifted)

def replay(case):
    import cssutils
    cssutils.log.setLevel(60)
    cssutils.ser.prefs.keepEmptyRules = True
    cssutils.log.raiseExceptions = True
    inp = case['inputs']
    if inp['kind'] == 'truncation':
        d = check_truncation(cssutils, inp['skeleton'], inp['cut'])
        if not d:
            return {'reproduced': False, 'detail': 'truncation fine'}
        text = ''.join(SKELETONS[inp['skeleton']])[:inp['cut']]
        return {'reproduced': True, 'detail': 'prefix %r: %s' % (text, d),
                'fields': {'symptom': 'truncation', 'text': text, 'tail': text[-12:]}}
    g = inp['damage']
    kind = inp['kind']
    carrier = next(c for c in (DECL_CARRIERS if kind == 'decl' else STMT_CARRIERS) if c[0] == inp['carrier'])
    if (not _balanced_no_top(cssutils, g, _forbid(kind, carrier))
            or not _independent(cssutils, carrier[1], g, carrier[2])
            or not lexically_complete(cssutils, carrier[1] + g + carrier[2])):
        return {'reproduced': False, 'detail': 'damage %r is not balanced / not token-independent' % g}
    try:
        if kind == 'decl':
            ok_tail, ok_head, a, b = check_decl(cssutils, carrier[0], carrier[1], carrier[2], carrier[3], g)
        else:
            ok_tail, ok_head, a, b = check_stmt(cssutils, carrier[0], carrier[1], carrier[2], g)
    except Exception as e:
        return {'reproduced': True, 'detail': 'carrier %s with damage %r raised %r' % (carrier[0], g, e),
                'fields': {'symptom': 'raises', 'carrier': carrier[0], 'damage': g, 'kind': kind}}
    if ok_tail is True and ok_head is True:
        return {'reproduced': False, 'detail': 'damage %r contained' % g}
    text = carrier[1] + g + carrier[2]
    import re
    return {'reproduced': True,
            'detail': 'source %r (damage %r)\n   parsed items            %r\n   without the following construct %r'
                      % (text, g, a, b),
            'fields': {'symptom': 'lost-after' if ok_tail is not True else 'lost-before', 'carrier': carrier[0],
                       'kind': kind, 'damage': g, 'text': text, 'damage_has_escape': '\\' in g,
                       'damage_shape': re.sub(r'[^(){}\[\]"\'\\@;:!,/*]', 'x', g)}}
