"""C12 - No hidden state: history-independent results, global modes restored.

1. frame    every parse call explored from the pipeline contexts (symbolic infix), for each
            combination of the library-wide error mode (raise / log) and the parser's own mode
            (raising / logging): the state vector V (error mode, serializer object and preferences,
            profile registry signature, prodparser.savedTokens) is the same after the call as before it, whether it returns or raises; and a
            fixed probe battery run afterwards gives the results it gives in a fresh process
            (two-call composition, DESIGN 3 C12.3).
2. faults   byte input with every 0..2-byte symbolic content under utf-8/ascii (UnicodeDecodeError
            is decided by the codec model), a fetcher that raises at its k-th call (k symbolic),
            missing file, csscombine with a failing fetcher: V restored on every path.
3. reuse    one CSSParser object parses the same text before and after every first call: identical.
4. tripwire an AST scan of /repo lists every module-level mutable object; it must equal the list V
            was built from (harness/c12_state.json), otherwise the run is inconclusive.
"""
import ast
import json
import os

from . import common
from .pipeline import SHEET_CONTEXTS, STYLE_CONTEXTS

PROP = 'C12'

BATTERY_TEXTS = [
    'a{b:c}', '@media tv, print {a{b:c}}', 'a{b:rgb(1,2,3)}', 'a{font: 1px/2 a, b}',
    '@import "x" tv, print;', 'a, b > c{d:e !important}', '@media tv and (min-width: 1px), print{a{b:c}}',
    'a{b:f(1, 2), g(3)}',
]


def state_vector(cssutils):
    from cssutils import prodparser
    prof = cssutils.profile
    # NOTE: the shared tokenizer's push-back buffer (prodparser.tokenizer._pushed) is deliberately
    # not part of V: every ProdParser() clears it before use (ProdParser.__init__), so a token left
    # there by an earlier parse ('@page{@top-left{}}' leaves one) cannot influence any result.
    return (
        ('raiseExceptions', cssutils.log.raiseExceptions),
        ('ser', id(cssutils.ser)),
        ('prefs', tuple(sorted((k, repr(v)) for k, v in vars(cssutils.ser.prefs).items()))),
        ('profiles', tuple(prof.profiles)),
        ('defaultProfiles', repr(prof.defaultProfiles)),
        ('knownNames', len(prof.knownNames)),
        ('savedTokens', len(prodparser.savedTokens)),
    )


def battery(cssutils):
    """probe battery: results must not depend on what happened before"""
    import xml.dom
    out = []
    saved = cssutils.log.raiseExceptions
    p = cssutils.CSSParser(validate=False, fetcher=lambda url: None)
    for t in BATTERY_TEXTS:
        try:
            out.append(p.parseString(t).cssText)
        except Exception as e:
            out.append('EXC ' + type(e).__name__)
    st = cssutils.parseStyle('a:b;c:rgb(1,2,3)', validate=False)
    out.append(st.cssText)
    sheet = p.parseString('a{b:c}')
    cssutils.log.raiseExceptions = True
    try:
        sheet.insertRule('@import "y";', 1)
        out.append('accepted')
    except xml.dom.DOMException as e:
        out.append('DOM ' + type(e).__name__)
    except Exception as e:
        out.append('EXC ' + type(e).__name__)
    try:
        cssutils.css.Selector('a,,b')
        out.append('accepted')
    except xml.dom.DOMException as e:
        out.append('DOM ' + type(e).__name__)
    except Exception as e:
        out.append('EXC ' + type(e).__name__)
    cssutils.log.raiseExceptions = saved
    return out


def _first_call(cssutils, text, entry, g, r, validate=False):
    """one parse(+serialise) call under library mode g and parser mode r; returns outcome tag"""
    cssutils.log.raiseExceptions = g
    parser = cssutils.CSSParser(raiseExceptions=r, validate=validate, fetcher=lambda url: None)
    try:
        if entry == 'sheet':
            parser.parseString(text).cssText
        else:
            parser.parseStyle(text).cssText
        return 'returned'
    except Exception as e:
        return 'raised:' + type(e).__name__


def run_frame(ctx_index, entry, n, g, r, path_timeout_s=45.0):
    cssutils = common.setup_lifted()
    from sx.symstr import fresh_str, reduced_alphabet
    amask = reduced_alphabet()
    ctxs = SHEET_CONTEXTS if entry == 'sheet' else STYLE_CONTEXTS
    prefix, suffix = ctxs[ctx_index]
    cssutils.log.raiseExceptions = True
    baseline = battery(cssutils)

    def fn():
        s = fresh_str(n, mask=amask)
        text = prefix + s + suffix
        inputs = {'kind': 'frame', 'text': text, 'entry': entry, 'g': g, 'r': r}
        common.set_inputs(inputs)
        info = {'in': inputs, 'tags': []}
        cssutils.log.raiseExceptions = g
        v0 = state_vector(cssutils)
        outcome = _first_call(cssutils, text, entry, g, r)
        v1 = state_vector(cssutils)
        info['tags'].append(outcome.split(':')[0])
        if v0 != v1:
            changed = [a[0] for a, b in zip(v0, v1) if a != b]
            info['note'] = {'problem': 'state changed', 'changed': changed, 'outcome': outcome}
            # restore by hand so that later paths start clean
            _reset(cssutils)
            return False, info
        cssutils.log.raiseExceptions = True
        after = battery(cssutils)
        if after != baseline:
            info['note'] = {'problem': 'battery differs', 'outcome': outcome}
            _reset(cssutils)
            return False, info
        return True, info

    return common.explore(fn, 'frame(%s,%r,%r,n=%d,g=%s,r=%s)' % (entry, prefix, suffix, n, g, r),
                          path_timeout_s=path_timeout_s)


# DOM-level entry points (no CSSParser involved): name -> (callable(cssutils, text), templates with one hole)
DOM_CALLS = {
    'MediaQuery': (lambda cu, t: cu.stylesheets.MediaQuery(t), ['screen \xa7', 'tv and (\xa7)', '\xa7']),
    'MediaList': (lambda cu, t: cu.stylesheets.MediaList(t), ['tv, \xa7', 'tv \xa7, print']),
    'Selector': (lambda cu, t: cu.css.Selector(t), ['a \xa7', 'a[\xa7]', 'a:not(\xa7']),
    'SelectorList': (lambda cu, t: cu.css.SelectorList(t), ['a, \xa7']),
    'PropertyValue': (lambda cu, t: cu.css.PropertyValue(t), ['1px \xa7', 'f(\xa7', 'rgb(1,\xa7']),
    'Property': (lambda cu, t: cu.css.Property('a', t), ['1px \xa7', 'b !\xa7']),
    'CSSStyleDeclaration': (lambda cu, t: cu.css.CSSStyleDeclaration(cssText=t), ['a:b;\xa7', 'a:\xa7']),
    'CSSVariablesDeclaration': (lambda cu, t: cu.css.CSSVariablesDeclaration(cssText=t), ['a:b;\xa7', 'a:\xa7']),
    'CSSStyleRule.cssText': (lambda cu, t: setattr(cu.css.CSSStyleRule(), 'cssText', t), ['a{b:c}\xa7', 'a\xa7{b:c}']),
    'CSSMediaRule.cssText': (lambda cu, t: setattr(cu.css.CSSMediaRule(), 'cssText', t), ['@media tv \xa7{a{b:c}}', '@media tv{a{b:c}\xa7}']),
    'CSSImportRule.cssText': (lambda cu, t: setattr(cu.css.CSSImportRule(), 'cssText', t), ['@import "x" tv \xa7;']),
    'CSSPageRule.cssText': (lambda cu, t: setattr(cu.css.CSSPageRule(), 'cssText', t), ['@page :first \xa7{a:b}']),
}
DOM_JOBS = [(k, i) for k in sorted(DOM_CALLS) for i in range(len(DOM_CALLS[k][1]))]


def _dom_call(cssutils, name, text):
    try:
        DOM_CALLS[name][0](cssutils, text)
        return 'returned'
    except Exception as e:
        return 'raised:' + type(e).__name__


def run_dom(name, tindex, n, g):
    """a DOM object is built / set from text with a symbolic hole, outside any CSSParser call: V and the battery
    must not change"""
    cssutils = common.setup_lifted()
    from sx.symstr import fresh_str, reduced_alphabet
    amask = reduced_alphabet()
    template = DOM_CALLS[name][1][tindex]
    cssutils.log.raiseExceptions = True
    baseline = battery(cssutils)

    def fn():
        s = fresh_str(n, mask=amask)
        pre, post = template.split('\xa7')
        text = pre + s + post
        inputs = {'kind': 'dom', 'name': name, 'text': text, 'g': g}
        common.set_inputs(inputs)
        info = {'in': inputs, 'tags': ['dom']}
        cssutils.log.raiseExceptions = g
        v0 = state_vector(cssutils)
        outcome = _dom_call(cssutils, name, text)
        v1 = state_vector(cssutils)
        info['tags'].append(outcome.split(':')[0])
        if v0 != v1:
            info['note'] = {'problem': 'state changed', 'changed': [a[0] for a, b in zip(v0, v1) if a != b], 'outcome': outcome}
            _reset(cssutils)
            return False, info
        cssutils.log.raiseExceptions = True
        if battery(cssutils) != baseline:
            info['note'] = {'problem': 'battery differs', 'outcome': outcome}
            _reset(cssutils)
            return False, info
        return True, info

    return common.explore(fn, 'dom(%s,%d,n=%d,g=%s)' % (name, tindex, n, g), path_timeout_s=60.0)


def _reset(cssutils):
    from cssutils import prodparser
    cssutils.log.raiseExceptions = True
    del prodparser.savedTokens[:]
    prodparser.tokenizer._pushed = []


def run_bytes(n, encoding, g, r):
    cssutils = common.setup_lifted()
    from sx.symstr import fresh_bytes
    cssutils.log.raiseExceptions = True
    baseline = battery(cssutils)

    def fn():
        b = fresh_bytes(n)
        data = b'a{b:c}' + b if n else b'a{b:c}'
        inputs = {'kind': 'bytes', 'data': data, 'encoding': encoding, 'g': g, 'r': r}
        common.set_inputs(inputs)
        info = {'in': inputs, 'tags': []}
        cssutils.log.raiseExceptions = g
        v0 = state_vector(cssutils)
        parser = cssutils.CSSParser(raiseExceptions=r, validate=False)
        try:
            parser.parseString(data, encoding=encoding)
            outcome = 'returned'
        except Exception as e:
            outcome = 'raised:' + type(e).__name__
        v1 = state_vector(cssutils)
        info['tags'].append(outcome)
        if v0 != v1:
            info['note'] = {'problem': 'state changed', 'changed': [a[0] for a, b in zip(v0, v1) if a != b],
                            'outcome': outcome}
            _reset(cssutils)
            return False, info
        cssutils.log.raiseExceptions = True
        if battery(cssutils) != baseline:
            info['note'] = {'problem': 'battery differs', 'outcome': outcome}
            _reset(cssutils)
            return False, info
        return True, info

    return common.explore(fn, 'bytes(n=%d,%s,g=%s,r=%s)' % (n, encoding, g, r))


FAULT_OPS = ['fetcher', 'parseurl', 'missingfile', 'csscombine', 'csscombine_bad']


def run_fault(op, g, r):
    cssutils = common.setup_lifted()
    from sx.core import fresh_int
    import cssutils.script
    cssutils.log.raiseExceptions = True
    baseline = battery(cssutils)

    def fn():
        k = fresh_int('k', 1, 3)
        inputs = {'kind': 'fault', 'op': op, 'k': k, 'g': g, 'r': r}
        common.set_inputs(inputs)
        info = {'in': inputs, 'tags': []}
        calls = {'n': 0}

        def fetcher(url):
            calls['n'] += 1
            if calls['n'] == k:
                raise OSError('injected fault')
            return (None, '@import "n%d"; a{b:c}' % calls['n'] if calls['n'] < 3 else 'a{b:c}')
        cssutils.log.raiseExceptions = g
        v0 = state_vector(cssutils)
        try:
            parser = cssutils.CSSParser(raiseExceptions=r, validate=False, fetcher=fetcher)
            if op == 'fetcher':
                parser.parseString('@import "a"; @import "b"; x{y:z}')
            elif op == 'parseurl':
                parser.parseUrl('http://example.invalid/x.css')
            elif op == 'missingfile':
                parser.parseFile('/nonexistent/verif/%d.css' % int(k))
            elif op == 'csscombine':
                cssutils.script.csscombine(cssText='@import "a"; x{y:z}', href='http://example.invalid/p.css')
            elif op == 'csscombine_bad':
                cssutils.script.csscombine(cssText=b'@import "a"; \xff', sourceencoding='utf-8',
                                           href='http://example.invalid/p.css')
            outcome = 'returned'
        except Exception as e:
            outcome = 'raised:' + type(e).__name__
        v1 = state_vector(cssutils)
        info['tags'].append(outcome)
        if v0 != v1:
            info['note'] = {'problem': 'state changed', 'changed': [a[0] for a, b in zip(v0, v1) if a != b],
                            'outcome': outcome}
            _reset(cssutils)
            cssutils.setSerializer(cssutils.serialize.CSSSerializer())
            return False, info
        cssutils.log.raiseExceptions = True
        if battery(cssutils) != baseline:
            info['note'] = {'problem': 'battery differs', 'outcome': outcome}
            _reset(cssutils)
            return False, info
        return True, info

    return common.explore(fn, 'fault(%s,g=%s,r=%s)' % (op, g, r))


def run_combine():
    """csscombine with every combination of minify / resolveVariables arguments and of the caller's
    resolveVariables / indent preferences (solver variables): V restored, battery unchanged"""
    cssutils = common.setup_lifted()
    from sx.core import fresh_bool
    import cssutils.script
    cssutils.log.raiseExceptions = True

    def fn():
        minify = fresh_bool('minify')
        resolve = fresh_bool('resolveVariables')
        pref_resolve = fresh_bool('pref_resolveVariables')
        pref_comments = fresh_bool('pref_keepComments')
        inputs = {'kind': 'combine', 'minify': minify, 'resolveVariables': resolve,
                  'pref_resolveVariables': pref_resolve, 'pref_keepComments': pref_comments}
        common.set_inputs(inputs)
        info = {'in': inputs, 'tags': ['combine']}
        cssutils.ser.prefs.useDefaults()
        cssutils.ser.prefs.resolveVariables = bool(pref_resolve)
        cssutils.ser.prefs.keepComments = bool(pref_comments)
        v0 = state_vector(cssutils)
        probe = cssutils.parseString('@variables{c:red} /*k*/ a{color:var(c)}', validate=False)
        before = probe.cssText
        try:
            cssutils.script.csscombine(cssText='@variables{c:red} a{color:var(c)}', href='http://example.invalid/p.css',
                                       minify=bool(minify), resolveVariables=bool(resolve))
            outcome = 'returned'
        except Exception as e:
            outcome = 'raised:' + type(e).__name__
        v1 = state_vector(cssutils)
        after = probe.cssText
        cssutils.ser.prefs.useDefaults()
        if v0 != v1:
            info['note'] = {'problem': 'state changed', 'changed': [a[0] for a, b in zip(v0, v1) if a != b], 'outcome': outcome}
            return False, info
        if before != after:
            info['note'] = {'problem': 'later serialisation differs', 'outcome': outcome}
            return False, info
        return True, info

    return common.explore(fn, 'combine')


def run_stale():
    """a parser built under one library mode is used after the caller changed the mode: the parse must hand back the
    mode the caller had set (solver variables: mode at construction, mode at the call, parser mode, entry point)"""
    cssutils = common.setup_lifted()
    from sx.core import fresh_bool, fresh_int

    def fn():
        g0, g1, r = fresh_bool('mode_at_construction'), fresh_bool('mode_at_call'), fresh_bool('parser_mode')
        entry = fresh_int('entry', 0, 2)
        inputs = {'kind': 'stale', 'g0': g0, 'g1': g1, 'r': r, 'entry': entry}
        common.set_inputs(inputs)
        info = {'in': inputs, 'tags': ['stale']}
        problem = _stale(cssutils, bool(g0), bool(g1), bool(r), int(entry))
        _reset(cssutils)
        if problem:
            info['note'] = {'problem': problem}
            return False, info
        return True, info

    return common.explore(fn, 'stale-parser-mode')


def _stale(cssutils, g0, g1, r, entry):
    cssutils.log.raiseExceptions = g0
    parser = cssutils.CSSParser(raiseExceptions=r, validate=False, fetcher=lambda url: None)
    cssutils.log.raiseExceptions = g1
    try:
        if entry == 0:
            parser.parseString('a{b:c}')
        elif entry == 1:
            parser.parseStyle('b:c')
        else:
            parser.parseString('a{b:c')      # incomplete: logged or raised
    except Exception:
        pass
    if cssutils.log.raiseExceptions is not g1:
        return ('library mode raiseExceptions was %s when the parser was built and %s before the call; after the call it is %s'
                % (g0, g1, cssutils.log.raiseExceptions))
    return None


def run_reuse(ctx_index, n, r):
    cssutils = common.setup_lifted()
    from sx.symstr import fresh_str, reduced_alphabet
    amask = reduced_alphabet()
    prefix, suffix = SHEET_CONTEXTS[ctx_index]

    def fn():
        s = fresh_str(n, mask=amask)
        text = prefix + s + suffix
        inputs = {'kind': 'reuse', 'text': text, 'r': r}
        common.set_inputs(inputs)
        info = {'in': inputs, 'tags': ['reuse']}
        cssutils.log.raiseExceptions = True
        parser = cssutils.CSSParser(raiseExceptions=r, validate=False, fetcher=lambda url: None)
        ref = '@media tv, print {a{b:c}} d{e:f(1, 2)}'
        first = parser.parseString(ref).cssText
        try:
            parser.parseString(text).cssText
        except Exception:
            pass
        cssutils.log.raiseExceptions = True
        try:
            second = parser.parseString(ref).cssText
            third = parser.parseString(ref).cssText
        except Exception as e:
            info['note'] = {'problem': 'reused parser raised %s' % type(e).__name__}
            _reset(cssutils)
            return False, info
        if not (first == second == third):
            info['note'] = {'problem': 'reused parser gave a different result'}
            _reset(cssutils)
            return False, info
        return True, info

    return common.explore(fn, 'reuse(%r,%r,n=%d,r=%s)' % (prefix, suffix, n, r))


MODES = [(True, False), (False, True), (False, False), (True, True)]


def jobs(tier):
    out = []
    nmax = 1 if tier == 'quick' else 2
    for i in range(len(SHEET_CONTEXTS)):
        for (g, r) in MODES[:2] if tier == 'quick' else MODES:
            for n in range(0, nmax + 1):
                out.append(('harness.c12', 'run_frame', dict(ctx_index=i, entry='sheet', n=n, g=g, r=r)))
        out.append(('harness.c12', 'run_reuse', dict(ctx_index=i, n=1, r=True)))
    for i in range(len(STYLE_CONTEXTS)):
        for (g, r) in MODES[:2]:
            out.append(('harness.c12', 'run_frame', dict(ctx_index=i, entry='style', n=1, g=g, r=r)))
    for (g, r) in MODES:
        for enc in ('utf-8', 'ascii', None):
            for n in range(0, 3):
                out.append(('harness.c12', 'run_bytes', dict(n=n, encoding=enc, g=g, r=r)))
        for op in FAULT_OPS:
            out.append(('harness.c12', 'run_fault', dict(op=op, g=g, r=r)))
    out.append(('harness.c12', 'run_combine', {}))
    out.append(('harness.c12', 'run_stale', {}))
    for name, ti in DOM_JOBS:
        for g in (True, False):
            for n in range(1, nmax + 1):
                out.append(('harness.c12', 'run_dom', dict(name=name, tindex=ti, n=n, g=g)))
    out.sort(key=lambda j: -j[2].get('n', 0))
    return out


# ---------------------------------------------------------------------- tripwire

def scan_module_state(root):
    """module- and class-level names bound to mutable objects (list/dict/set literals or calls)"""
    found = []
    for top in ('cssutils', 'encutils'):
        for dirpath, dirnames, filenames in os.walk(os.path.join(root, top)):
            if 'tests' in dirpath.split(os.sep):
                continue
            for fn in sorted(filenames):
                if not fn.endswith('.py'):
                    continue
                path = os.path.join(dirpath, fn)
                try:
                    tree = ast.parse(open(path, encoding='utf-8').read())
                except SyntaxError:
                    continue
                rel = os.path.relpath(path, root)
                for node in tree.body:
                    if isinstance(node, ast.Assign) and isinstance(node.value, (ast.List, ast.Dict, ast.Set, ast.Call,
                                                                                ast.ListComp, ast.DictComp)):
                        if isinstance(node.value, ast.Call):
                            f = node.value.func
                            name = f.id if isinstance(f, ast.Name) else (f.attr if isinstance(f, ast.Attribute) else '')
                            if name in ('compile', 'namedtuple', 'frozenset', 'tuple', 'property', '_parser_redirect',
                                        'getLogger', 'from_iterable'):
                                continue
                        for t in node.targets:
                            if isinstance(t, ast.Name) and t.id != '__all__':
                                found.append('%s:%s' % (rel, t.id))
                    for sub in ast.walk(node):
                        if isinstance(sub, ast.Global):
                            for nm in sub.names:
                                found.append('%s:global %s' % (rel, nm))
    return sorted(set(found))


def main(tier):
    rep = common.Report(PROP, tier)
    results = common.run_jobs(jobs(tier))
    rep.add_results(results)
    cases = []
    for r in results:
        cases.extend(r['cex'])
        for t in r['timeouts']:
            if t.get('inputs'):
                cases.append({'job': r['job'], 'inputs': t['inputs'], 'note': 'path time budget exceeded'})
    rep.handle_counterexamples(cases)
    # tripwire
    found = scan_module_state(common.SX_ROOT)
    expected_file = os.path.join(common.VERIF, 'harness', 'c12_state.json')
    expected = json.load(open(expected_file)) if os.path.exists(expected_file) else []
    new = [x for x in found if x not in expected]
    rep.extra['module_state_scanned'] = len(found)
    if new:
        rep.extra['state_vector_incomplete'] = new
        rep.obligations.append(('state vector covers all module-level mutable objects', 'inconclusive: new %s' % new))
    else:
        rep.obligations.append(('state vector covers all module-level mutable objects', 'discharged'))
    rep.bounds = {
        'frame': 'all %d sheet and %d style contexts, symbolic infix of length <= %d, library mode x parser mode '
                 'in %s' % (len(SHEET_CONTEXTS), len(STYLE_CONTEXTS), 1 if tier == 'quick' else 2,
                            MODES[:2] if tier == 'quick' else MODES),
        'dom': 'DOM objects built / set from text outside any parser call: %d templates over %s, hole of length <= %d, both '
               'library modes' % (len(DOM_JOBS), sorted(DOM_CALLS), 1 if tier == 'quick' else 2),
        'bytes': "b'a{b:c}' + every 0..2 symbolic bytes, encoding utf-8 / ascii / None, all four mode pairs",
        'faults': 'fetcher raising at call k (k symbolic 1..3), parseUrl, missing file, csscombine (failing '
                  'fetcher; undecodable source)',
        'reuse': 'one parser object, reference text before and twice after each first call',
    }
    rep.assumptions = ['state vector V = error mode, serializer object + preferences, profile registry signature, '
                       'prodparser.savedTokens (the shared tokenizer push-back buffer is cleared by every ProdParser() and therefore not state); completeness of V is checked by '
                       'the AST tripwire against harness/c12_state.json',
                       'the probe battery stands for "any later call"']
    rep.stubs = ['logging: StubLog', 'fetcher: in-memory', 'codecs: sx/pycodecs.py']
    rep.outside = ['state outside the process', 'first calls longer than the infix bound']
    rep.witness_required = ['returned', 'raised', 'reuse', 'combine', 'dom', 'stale']
    return rep.finish()


# ---------------------------------------------------------------------- replay (unlifted)

def replay(case):
    import cssutils
    import cssutils.script
    import subprocess
    import sys
    cssutils.log.setLevel(60)
    inp = case['inputs']
    cssutils.log.raiseExceptions = True
    baseline = battery(cssutils)
    g, r = inp.get('g', True), inp.get('r', False)
    kind = inp['kind']
    if kind == 'combine':
        cssutils.ser.prefs.useDefaults()
        cssutils.ser.prefs.resolveVariables = inp['pref_resolveVariables']
        cssutils.ser.prefs.keepComments = inp['pref_keepComments']
        v0 = state_vector(cssutils)
        probe = cssutils.parseString('@variables{c:red} /*k*/ a{color:var(c)}', validate=False)
        before = probe.cssText
        try:
            cssutils.script.csscombine(cssText='@variables{c:red} a{color:var(c)}', href='http://example.invalid/p.css',
                                       minify=inp['minify'], resolveVariables=inp['resolveVariables'])
        except Exception:
            pass
        v1 = state_vector(cssutils)
        after = probe.cssText
        cssutils.ser.prefs.useDefaults()
        changed = [a[0] for a, b in zip(v0, v1) if a != b]
        if not changed and before == after:
            return {'reproduced': False, 'detail': 'csscombine left preferences and later output alone'}
        return {'reproduced': True,
                'detail': 'csscombine(minify=%s, resolveVariables=%s) with prefs.resolveVariables=%s: state changed %s; the same '
                          'sheet serialises as %r before and %r after'
                          % (inp['minify'], inp['resolveVariables'], inp['pref_resolveVariables'], changed, before, after),
                'fields': {'symptom': 'combine-state', 'changed': '+'.join(changed)}}
    if kind == 'stale':
        problem = _stale(cssutils, inp['g0'], inp['g1'], inp['r'], inp['entry'])
        cssutils.log.raiseExceptions = True
        if not problem:
            return {'reproduced': False, 'detail': 'mode handed back'}
        return {'reproduced': True, 'detail': problem, 'fields': {'symptom': 'stale-parser-mode'}}
    if kind == 'reuse':
        cssutils.log.raiseExceptions = True
        parser = cssutils.CSSParser(raiseExceptions=r, validate=False, fetcher=lambda url: None)
        ref = '@media tv, print {a{b:c}} d{e:f(1, 2)}'
        first = parser.parseString(ref).cssText
        try:
            parser.parseString(inp['text']).cssText
        except Exception:
            pass
        cssutils.log.raiseExceptions = True
        try:
            second = parser.parseString(ref).cssText
        except Exception as e:
            return {'reproduced': True, 'detail': 'reused parser raised %r after parsing %r' % (e, inp['text']),
                    'fields': {'symptom': 'reuse-raises', 'text': inp['text']}}
        if first == second:
            return {'reproduced': False, 'detail': 'reused parser gives identical results'}
        return {'reproduced': True, 'detail': 'after parsing %r the same parser serialises the reference text '
                'differently: %r vs %r' % (inp['text'], first, second),
                'fields': {'symptom': 'reuse-differs', 'text': inp['text']}}
    cssutils.log.raiseExceptions = g
    v0 = state_vector(cssutils)
    desc = ''
    try:
        if kind == 'frame':
            desc = '%s(%r)' % ('parseString' if inp['entry'] == 'sheet' else 'parseStyle', inp['text'])
            outcome = _first_call(cssutils, inp['text'], inp['entry'], g, r)
        elif kind == 'dom':
            desc = '%s with %r' % (inp['name'], inp['text'])
            outcome = _dom_call(cssutils, inp['name'], inp['text'])
        elif kind == 'bytes':
            desc = 'parseString(%r, encoding=%r)' % (inp['data'], inp['encoding'])
            parser = cssutils.CSSParser(raiseExceptions=r, validate=False)
            try:
                parser.parseString(common.unjson(inp['data']), encoding=inp['encoding'])
                outcome = 'returned'
            except Exception as e:
                outcome = 'raised:' + type(e).__name__
        else:
            op, k = inp['op'], inp['k']
            desc = '%s with fetcher failing at call %d' % (op, k)
            calls = {'n': 0}

            def fetcher(url):
                calls['n'] += 1
                if calls['n'] == k:
                    raise OSError('injected fault')
                return (None, '@import "n%d"; a{b:c}' % calls['n'] if calls['n'] < 3 else 'a{b:c}')
            try:
                parser = cssutils.CSSParser(raiseExceptions=r, validate=False, fetcher=fetcher)
                if op == 'fetcher':
                    parser.parseString('@import "a"; @import "b"; x{y:z}')
                elif op == 'parseurl':
                    parser.parseUrl('http://example.invalid/x.css')
                elif op == 'missingfile':
                    parser.parseFile('/nonexistent/verif/%d.css' % k)
                elif op == 'csscombine':
                    cssutils.script.csscombine(cssText='@import "a"; x{y:z}', href='http://example.invalid/p.css')
                elif op == 'csscombine_bad':
                    cssutils.script.csscombine(cssText=b'@import "a"; \xff', sourceencoding='utf-8',
                                               href='http://example.invalid/p.css')
                outcome = 'returned'
            except Exception as e:
                outcome = 'raised:' + type(e).__name__
    finally:
        pass
    v1 = state_vector(cssutils)
    changed = [a[0] for a, b in zip(v0, v1) if a != b]
    if changed:
        d = dict(v0), dict(v1)
        return {'reproduced': True,
                'detail': 'library mode raiseExceptions=%s, parser raiseExceptions=%s: %s -> %s; state changed: %s'
                          % (g, r, desc, outcome, ['%s: %r -> %r' % (c, d[0][c], d[1][c]) for c in changed]),
                'fields': {'symptom': 'state-changed', 'changed': '+'.join(changed), 'kind': kind,
                           'outcome': outcome.split(':')[0], 'exc': outcome.split(':')[-1], 'g': g, 'r': r,
                           'op': inp.get('op')}}
    cssutils.log.raiseExceptions = True
    after = battery(cssutils)
    if after != baseline:
        diffs = [(i, a, b) for i, (a, b) in enumerate(zip(baseline, after)) if a != b]
        return {'reproduced': True,
                'detail': 'after %s (-> %s) the probe battery differs: %r' % (desc, outcome, diffs[:3]),
                'fields': {'symptom': 'battery-differs', 'kind': kind}}
    return {'reproduced': False, 'detail': '%s -> %s: state and battery unchanged' % (desc, outcome)}
