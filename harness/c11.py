"""C11 - A rejected DOM mutation changes nothing.

reject   A fixed sheet holding one rule of every kind (attached objects: rule -> sheet) is built, one public mutator
         is called with new content written from a template with holes; the characters in the holes are solver
         variables over all of Unicode (reduced alphabet), so the solver decides at which stage the call is
         rejected - immediately, after part of the new content was accepted, or inside a nested object.  Whenever
         the call raises an xml.dom.DOMException, the projection of the whole sheet (every rule with selectors,
         declarations, media, namespaces ...), its serialisation, its namespace mapping, its encoding and the
         text of the target are compared with their value before the call.
index    insertRule / deleteRule / add on sheet and @media with a symbolic index and a rule text from a menu.
readonly objects created read-only: every mutator must raise NoModificationAllowedErr and change nothing.
"""
from . import common, projection

PROP = 'C11'
HOLE = '\xa7'     # section sign: marks a hole in a template

PRE = ('@charset "utf-8";@import "i.css" tv;@namespace p "u";/*c*/a, p|b{color:red;top:1px !important}'
       '@media tv,print{c{left:0}d{right:0}}@page :first{margin:0;@top-left{content:"x"}}'
       '@font-face{font-family:f}@x y;')


def _first(sheet, tname):
    for r in sheet.cssRules:
        if type(r).__name__ == tname:
            return r
    raise LookupError(tname)


def _mq(ml):
    return [it.value for it in ml.seq if type(it.value).__name__ == 'MediaQuery'][0]


TARGETS = {
    'sheet': lambda s: s,
    'style': lambda s: _first(s, 'CSSStyleRule'),
    'decl': lambda s: _first(s, 'CSSStyleRule').style,
    'property': lambda s: _first(s, 'CSSStyleRule').style.getProperty('color'),
    'value': lambda s: _first(s, 'CSSStyleRule').style.getProperty('color').propertyValue,
    'selectorlist': lambda s: _first(s, 'CSSStyleRule').selectorList,
    'selector': lambda s: _first(s, 'CSSStyleRule').selectorList[0],
    'media': lambda s: _first(s, 'CSSMediaRule'),
    'medialist': lambda s: _first(s, 'CSSMediaRule').media,
    'mediaquery': lambda s: _mq(_first(s, 'CSSMediaRule').media),
    'inner': lambda s: _first(s, 'CSSMediaRule').cssRules[0],
    'innerdecl': lambda s: _first(s, 'CSSMediaRule').cssRules[0].style,
    'page': lambda s: _first(s, 'CSSPageRule'),
    'pagedecl': lambda s: _first(s, 'CSSPageRule').style,
    'margin': lambda s: _first(s, 'CSSPageRule').cssRules[0],
    'import': lambda s: _first(s, 'CSSImportRule'),
    'importmedia': lambda s: _first(s, 'CSSImportRule').media,
    'namespace': lambda s: _first(s, 'CSSNamespaceRule'),
    'charset': lambda s: _first(s, 'CSSCharsetRule'),
    'fontface': lambda s: _first(s, 'CSSFontFaceRule'),
    'unknown': lambda s: _first(s, 'CSSUnknownRule'),
    'comment': lambda s: _first(s, 'CSSComment'),
}


def _set(attr):
    def f(t, text):
        setattr(t, attr, text)
    f.__name__ = attr + '='
    return f


def _call(meth):
    def f(t, text):
        getattr(t, meth)(text)
    f.__name__ = meth
    return f


def _ns_set(t, text):
    t.namespaces[text] = 'u2'


def _ns_set_uri(t, text):
    t.namespaces['p'] = text


def _ns_del(t, text):
    del t.namespaces[text]


def _setprop(t, text):
    t.setProperty('left', text)


def _setprop_name(t, text):
    t.setProperty(text, '1px')


def _setitem(t, text):
    t['left'] = text


# (mutator id, target, function, templates)
MUTATORS = [
    ('sheet.cssText', 'sheet', _set('cssText'),
     ['e{f:g}\xa7', 'e{f:g}@media tv{h{i:j}\xa7}', 'e{f:g}h{i:\xa7}', '@namespace q "v";e{f:g}q|h\xa7{i:j}',
      'e{f:g}@import\xa7 "k";', 'e{f:g}@page{k:l;\xa7}', '@namespace q "v";r|e\xa7{f:g}', 'e{f:g}\xa7{']),
    ('sheet.add', 'sheet', _call('add'), ['e{f:g}\xa7', 'e\xa7{f:g}', '@import "k"\xa7;', '@namespace q\xa7 "v";', '@charset "a\xa7";']),
    ('sheet.encoding', 'sheet', _set('encoding'), ['ascii\xa7', '\xa7', 'utf-\xa7']),
    ('sheet.namespaces[x]=', 'sheet', _ns_set, ['q\xa7', '\xa7']),
    ('sheet.namespaces[p]=x', 'sheet', _ns_set_uri, ['v\xa7', 'u\xa7', '\xa7']),
    ('del sheet.namespaces[x]', 'sheet', _ns_del, ['p', '\xa7', 'p\xa7']),
    ('style.cssText', 'style', _set('cssText'),
     ['e\xa7{f:g}', 'e{f:g}\xa7', 'e{f:g;h\xa7:i}', 'e{f:g;h:\xa7}', 'e, q|r\xa7{f:g}', 'e, \xa7{f:g}', 'e{f:g;h:i !\xa7}']),
    ('style.selectorText', 'style', _set('selectorText'), ['e, \xa7', 'e, q|f\xa7', 'p|e\xa7', 'e\xa7', 'e[f=\xa7]', 'e:\xa7']),
    ('style.style', 'style', _set('style'), ['f:g;h:\xa7', 'f:g;h\xa7:i', 'f:g\xa7']),
    ('decl.cssText', 'decl', _set('cssText'), ['f:g;h:\xa7', 'f:g;h\xa7:i', 'f:g;\xa7', 'f:g;h:i !\xa7', 'f:g}\xa7']),
    ('decl.setProperty(left,x)', 'decl', _setprop, ['1px \xa7', '\xa7', 'f(\xa7']),
    ('decl.setProperty(x,1px)', 'decl', _setprop_name, ['left\xa7', '\xa7']),
    ('decl[left]=', 'decl', _setitem, ['1px \xa7', '\xa7']),
    ('property.cssText', 'property', _set('cssText'), ['left: 1\xa7', 'left\xa7: 1', 'left: 1 !\xa7', 'left: 1 !important\xa7', '\xa7: 1', 'left: f(1,\xa7']),
    ('property.name', 'property', _set('name'), ['left\xa7', '\xa7']),
    ('property.value', 'property', _set('value'), ['1\xa7', '1 \xa7', '\xa7']),
    ('property.propertyValue', 'property', _set('propertyValue'), ['1\xa7', '1 \xa7']),
    ('property.priority', 'property', _set('priority'), ['important\xa7', '\xa7', '!\xa7']),
    ('value.cssText', 'value', _set('cssText'), ['1px \xa7', '\xa7', 'f(\xa7', '1px, \xa7']),
    ('selectorlist.selectorText', 'selectorlist', _set('selectorText'), ['e, f\xa7', 'e, \xa7', 'e, q|f', '\xa7']),
    ('selectorlist.appendSelector', 'selectorlist', _call('appendSelector'), ['e\xa7', '\xa7', 'e, f\xa7', 'q|e']),
    ('selector.selectorText', 'selector', _set('selectorText'), ['e\xa7', 'e q|f\xa7', 'e > \xa7', 'e[\xa7]', 'e:not(\xa7)', 'e, f\xa7']),
    ('media.cssText', 'media', _set('cssText'),
     ['@media tv{e{f:g}\xa7}', '@media tv\xa7{e{f:g}}', '@media tv{e{f:g}}\xa7', '@media tv{e{f:g}h{i:\xa7}}',
      '@media tv{e{f:g}@import\xa7 "x";}', '@media tv, \xa7{e{f:g}}', '@media\xa7 tv{e{f:g}}', '@media tv{e{f:g}q|h\xa7{i:j}}',
      '@media tv{e{f:g}@page\xa7{k:l}}']),
    ('media.insertRule', 'media', _call('insertRule'), ['e{f:g}\xa7', 'e\xa7{f:g}', '@import\xa7 "k";', '@charset "a\xa7";', 'q|e\xa7{f:g}']),
    ('media.add', 'media', _call('add'), ['e{f:g}\xa7', 'e\xa7{f:g}']),
    ('medialist.mediaText', 'medialist', _set('mediaText'), ['tv, \xa7', 'tv\xa7', 'tv and (\xa7)', '\xa7', 'tv, print and \xa7']),
    ('medialist.appendMedium', 'medialist', _call('appendMedium'), ['\xa7', 'tv\xa7', 'projection and (\xa7)']),
    ('medialist.deleteMedium', 'medialist', _call('deleteMedium'), ['t\xa7', '\xa7', 'tv\xa7']),
    ('mediaquery.mediaText', 'mediaquery', _set('mediaText'), ['tv and (\xa7)', 'tv\xa7', '\xa7', 'not \xa7']),
    ('mediaquery.mediaType', 'mediaquery', _set('mediaType'), ['t\xa7', '\xa7']),
    ('inner.cssText', 'inner', _set('cssText'), ['e{f:g}\xa7', 'e\xa7{f:g}', 'e{f:g;h:\xa7}']),
    ('inner.selectorText', 'inner', _set('selectorText'), ['e, \xa7', 'q|e']),
    ('innerdecl.cssText', 'innerdecl', _set('cssText'), ['f:g;h:\xa7', 'f:g;h\xa7:i']),
    ('page.cssText', 'page', _set('cssText'),
     ['@page :left\xa7{margin:0}', '@page{margin:0}\xa7', '@page{margin:0;@top-left{content:"y"}\xa7}', '@page{margin:0;k:\xa7}',
      '@page{margin:0;@top-\xa7{content:"y"}}', '@page\xa7{margin:0}', '@page{margin:0;@top-left{content:\xa7}}']),
    ('page.selectorText', 'page', _set('selectorText'), [':left\xa7', '\xa7', 'n:first\xa7', ':\xa7']),
    ('page.style', 'page', _set('style'), ['k:l;m:\xa7', 'k:l;m\xa7:n']),
    ('page.insertRule', 'page', _call('insertRule'), ['@top-right{content:"y"}\xa7', '@top-\xa7{content:"y"}', 'e{f:g}\xa7']),
    ('page.add', 'page', _call('add'), ['@top-right{content:"y"}\xa7', '@bottom-\xa7{content:"y"}']),
    ('pagedecl.cssText', 'pagedecl', _set('cssText'), ['k:l;m:\xa7', 'k:l;m\xa7:n']),
    ('margin.cssText', 'margin', _set('cssText'), ['@top-left{content:"y"}\xa7', '@top-\xa7{content:"y"}', '@top-left{content:"y";k:\xa7}', '@top-left\xa7{content:"y"}']),
    ('margin.margin', 'margin', _set('margin'), ['@top-\xa7', '\xa7', '@bottom-left\xa7']),
    ('import.cssText', 'import', _set('cssText'), ['@import "k.css" tv\xa7;', '@import "k.css"\xa7', '@import\xa7 "k.css";', '@import "k.css" tv, \xa7;', '@import "k.css" tv "n"\xa7;', '@import url(k.css)\xa7;']),
    ('import.href', 'import', _set('href'), ['k\xa7.css']),
    ('import.name', 'import', _set('name'), ['n\xa7']),
    ('importmedia.mediaText', 'importmedia', _set('mediaText'), ['tv, \xa7', 'print\xa7']),
    ('namespace.cssText', 'namespace', _set('cssText'), ['@namespace q "v"\xa7;', '@namespace q\xa7 "v";', '@namespace\xa7 q "v";', '@namespace p "u"\xa7;']),
    ('namespace.prefix', 'namespace', _set('prefix'), ['q\xa7', '\xa7']),
    ('namespace.namespaceURI', 'namespace', _set('namespaceURI'), ['v\xa7']),
    ('charset.cssText', 'charset', _set('cssText'), ['@charset "ascii"\xa7;', '@charset "\xa7";', '@charset\xa7 "ascii";', '@charset "ascii";\xa7']),
    ('charset.encoding', 'charset', _set('encoding'), ['asci\xa7', '\xa7']),
    ('fontface.cssText', 'fontface', _set('cssText'), ['@font-face{font-family:g}\xa7', '@font-face\xa7{font-family:g}', '@font-face{font-family:g;src:\xa7}', '@font-\xa7{font-family:g}']),
    ('fontface.style', 'fontface', _set('style'), ['font-family:g;src:\xa7']),
    ('unknown.cssText', 'unknown', _set('cssText'), ['@y \xa7;', '@y z;\xa7', '@\xa7 z;', '@y {\xa7}']),
    ('comment.cssText', 'comment', _set('cssText'), ['/*\xa7*/', '/*d*/\xa7', '\xa7/*d*/']),
]
MUT = {m[0]: m for m in MUTATORS}
SMALL_ALPHABET = 'aZ09_-\\"\'(){}[];:,.|*+>~/!@#$%&=<^? \t\n\r\f\x00\x7f\x80\xe9\u2028\U00010400'

RULE_MENU = ['e{f:g}', '@import "k.css";', '@namespace q "v";', '@charset "ascii";', '@media tv{e{f:g}}', '@page{k:l}',
             '@font-face{font-family:g}', '/*d*/', '@y z;', 'q|e{f:g}', 'e{f:g', '', '@namespace p "v";', '@namespace q "u";',
             '@namespace "u";', '@namespace p "u";', '@top-right{content:"y"}', 'p|e{f:g}', '@media tv{q|e{f:g}}']
INDEX_OPS = ['sheet.insertRule', 'sheet.deleteRule', 'media.insertRule', 'media.deleteRule', 'page.insertRule', 'page.deleteRule']


def _pre_none(cssutils, sheet):
    pass


def _pre_add(cssutils, sheet):
    sheet.add('zz{yy:xx}')
    sheet.add('@media print{zm{ym:xm}}')


def _pre_delete(cssutils, sheet):
    sheet.deleteRule(_first(sheet, 'CSSComment'))
    sheet.deleteRule(_first(sheet, 'CSSUnknownRule'))


def _pre_edit(cssutils, sheet):
    r = _first(sheet, 'CSSStyleRule')
    r.style.setProperty('left', '5px', 'important')
    r.selectorText = 'a, p|b, k > l'
    _first(sheet, 'CSSMediaRule').media.appendMedium('projection')


def _pre_namespace(cssutils, sheet):
    sheet.namespaces['q'] = 'w'
    sheet.encoding = 'ascii'


# accepted mutations applied before the rejected one: "arbitrary prior state" within this menu
PRE_OPS = [_pre_none, _pre_add, _pre_delete, _pre_edit, _pre_namespace]


def fetcher(url):
    return 'utf-8', b'/*i*/'


def build(cssutils):
    p = cssutils.CSSParser(fetcher=fetcher, validate=False)
    sheet = p.parseString(PRE)
    cssutils.log.raiseExceptions = True
    return sheet


def _text_of(t):
    for a in ('cssText', 'selectorText', 'mediaText'):
        if hasattr(type(t), a):
            return getattr(t, a)
    return None


def snapshot(sheet, target):
    try:
        ns = sorted(sheet.namespaces.items())
    except Exception as e:
        ns = ('error', type(e).__name__)
    links = [(type(r).__name__, r.parentStyleSheet is sheet, r.parentRule is None) for r in sheet.cssRules]
    return (projection.sheet(sheet), sheet.cssText, ns, sheet.encoding, _text_of(target), links)


PARTS = ['projection', 'cssText', 'namespaces', 'encoding', 'target text', 'owner links']


def changed(before, after):
    """None, or the name of the first part that differs (content equalities may be symbolic: branch)"""
    for name, a, b in zip(PARTS, before, after):
        if name == 'projection':
            same = projection.eq(a, b)
        else:
            same = (a == b)
        if not same:
            return name
    return None


def fill(template, holes):
    parts = template.split(HOLE)
    out = parts[0]
    for h, p in zip(holes, parts[1:]):
        out = out + h + p
    return out


def run_reject(mid, tindex, n, pre=0):
    cssutils = common.setup_lifted()
    import xml.dom
    from sx.symstr import fresh_str, reduced_alphabet
    from sx.mask import Mask
    amask = reduced_alphabet().minus(Mask.rng(0xD800, 0xDFFF))
    _, tname, fn, templates = MUT[mid]
    template = templates[tindex]
    small = 'namespace' in mid or '@namespace' in template
    if small:
        # the text ends up as a dictionary / set key (prefix or URI), which has to be realised: a small alphabet that
        # keeps one character of every lexical class lets the realisation finish
        amask = Mask.of(SMALL_ALPHABET)
    nholes = template.count(HOLE)

    def run():
        holes = [fresh_str(n, mask=amask) for _ in range(nholes)]
        inputs = {'mutator': mid, 'template': tindex, 'holes': holes, 'pre': pre}
        common.set_inputs(inputs)
        info = {'in': inputs, 'tags': ['pre:%d' % pre]}
        sheet = build(cssutils)
        PRE_OPS[pre](cssutils, sheet)
        try:
            target = TARGETS[tname](sheet)
        except LookupError:
            info['tags'].append('target-removed-by-prior-edit')
            return True, info
        before = snapshot(sheet, target)
        text = fill(template, holes)
        try:
            fn(target, text)
        except xml.dom.DOMException as e:
            info['tags'].append('rejected:' + type(e).__name__)
            after = snapshot(sheet, target)
            part = changed(before, after)
            if part:
                info['note'] = '%s with %r raised %s, %s changed' % (mid, template, type(e).__name__, part)
                return False, info
            return True, info
        except Exception as e:
            info['tags'].append('other-exception:' + type(e).__name__)
            return True, info
        info['tags'].append('accepted')
        return True, info

    return common.explore(run, 'reject(%s,%d,n=%d,pre=%d)' % (mid, tindex, n, pre), path_timeout_s=120.0,
                          realise_cap=4096 if small else 64)


def _index_call(cssutils, sheet, op, text, idx):
    tname, meth = op.split('.')
    t = TARGETS[tname](sheet)
    if meth == 'insertRule':
        t.insertRule(text, idx)
    else:
        t.deleteRule(idx)
    return t


def run_index(op):
    cssutils = common.setup_lifted()
    import xml.dom
    from sx.core import fresh_int

    def run():
        r = fresh_int('rule', 0, len(RULE_MENU) - 1) if op.endswith('insertRule') else 0
        idx = fresh_int('idx', -12, 12)
        inputs = {'op': op, 'rule': r, 'idx': idx}
        common.set_inputs(inputs)
        info = {'in': inputs, 'tags': []}
        sheet = build(cssutils)
        target = TARGETS[op.split('.')[0]](sheet)
        before = snapshot(sheet, target)
        try:
            _index_call(cssutils, sheet, op, RULE_MENU[int(r)], idx)
        except xml.dom.DOMException as e:
            info['tags'].append('rejected:' + type(e).__name__)
            after = snapshot(sheet, target)
            part = changed(before, after)
            if part:
                info['note'] = '%s raised %s, %s changed' % (op, type(e).__name__, part)
                return False, info
            return True, info
        except Exception as e:
            info['tags'].append('other-exception:' + type(e).__name__)
            return True, info
        info['tags'].append('accepted')
        return True, info

    return common.explore(run, 'index(%s)' % op, path_timeout_s=120.0)


# ---------------------------------------------------------------------- read-only objects

def readonly_objects(cssutils):
    css, st = cssutils.css, cssutils.stylesheets
    objs = []

    def add(name, make):
        try:
            objs.append((name, make()))
        except TypeError:
            pass
    add('CSSStyleSheet', lambda: _ro_sheet(cssutils))
    add('CSSStyleRule', lambda: css.CSSStyleRule(selectorText='a', style='b:c', readonly=True))
    add('CSSMediaRule', lambda: css.CSSMediaRule(mediaText='tv', readonly=True))
    add('CSSPageRule', lambda: css.CSSPageRule(selectorText=':first', style='margin:0', readonly=True))
    add('CSSFontFaceRule', lambda: css.CSSFontFaceRule(style='font-family:f', readonly=True))
    add('CSSImportRule', lambda: css.CSSImportRule(href='i.css', mediaText='tv', readonly=True))
    add('CSSNamespaceRule', lambda: css.CSSNamespaceRule(namespaceURI='u', prefix='p', readonly=True))
    add('CSSCharsetRule', lambda: css.CSSCharsetRule(encoding='utf-8', readonly=True))
    add('CSSUnknownRule', lambda: css.CSSUnknownRule(cssText='@x y;', readonly=True))
    add('CSSComment', lambda: css.CSSComment(cssText='/*c*/', readonly=True))
    add('CSSStyleDeclaration', lambda: css.CSSStyleDeclaration(cssText='b:c', readonly=True))
    add('CSSVariablesDeclaration', lambda: css.CSSVariablesDeclaration(cssText='x:1', readonly=True))
    add('SelectorList', lambda: css.SelectorList(selectorText='a, b', readonly=True))
    add('Selector', lambda: css.Selector(selectorText='a', readonly=True))
    add('MediaList', lambda: st.MediaList(mediaText='tv, print', readonly=True))
    add('MediaQuery', lambda: st.MediaQuery(mediaText='tv', readonly=True))
    add('PropertyValue', lambda: css.PropertyValue(cssText='1px', readonly=True))
    return objs


def _ro_sheet(cssutils):
    s = cssutils.css.CSSStyleSheet(readonly=False)
    s.cssText = '@namespace p "u";a{b:c}'
    s._readonly = True
    return s


RO_CALLS = {
    'cssText': lambda o, v: setattr(o, 'cssText', v), 'selectorText': lambda o, v: setattr(o, 'selectorText', v),
    'mediaText': lambda o, v: setattr(o, 'mediaText', v), 'style': lambda o, v: setattr(o, 'style', 'd:e'),
    'encoding': lambda o, v: setattr(o, 'encoding', 'ascii'), 'href': lambda o, v: setattr(o, 'href', 'k.css'),
    'name': lambda o, v: setattr(o, 'name', 'n'), 'prefix': lambda o, v: setattr(o, 'prefix', 'q'),
    'namespaceURI': lambda o, v: setattr(o, 'namespaceURI', 'v'), 'mediaType': lambda o, v: setattr(o, 'mediaType', 'print'),
    'media': lambda o, v: setattr(o, 'media', 'print'), 'selectorList': lambda o, v: setattr(o, 'selectorList', 'z'),
    'margin': lambda o, v: setattr(o, 'margin', '@top-left'),
    'insertRule': lambda o, v: o.insertRule('z{y:x}'), 'deleteRule': lambda o, v: o.deleteRule(0),
    'add': lambda o, v: o.add('z{y:x}'), 'appendMedium': lambda o, v: o.appendMedium('projection'),
    'deleteMedium': lambda o, v: o.deleteMedium('tv'), 'appendSelector': lambda o, v: o.appendSelector('z'),
    'setProperty': lambda o, v: o.setProperty('d', 'e'), 'removeProperty': lambda o, v: o.removeProperty('b'),
    '__setitem__': lambda o, v: o.__setitem__('b', 'e') if not hasattr(o, 'mediaText') else o.__setitem__(0, 'print'),
    '__delitem__': lambda o, v: o.__delitem__('b') if not hasattr(o, 'mediaText') and not hasattr(o, 'selectorText') else o.__delitem__(0),
    'setVariable': lambda o, v: o.setVariable('x', '2'), 'removeVariable': lambda o, v: o.removeVariable('x'),
    'append': lambda o, v: o.append('z'), 'setNamespace': lambda o, v: o.namespaces.__setitem__('q', 'v'),
    'delNamespace': lambda o, v: o.namespaces.__delitem__('p'),
}
RO_TEXT = {'cssText': None, 'selectorText': 'z', 'mediaText': 'print'}


def _ro_state(o):
    out = []
    for a in ('cssText', 'selectorText', 'mediaText', 'encoding', 'href', 'name', 'prefix', 'namespaceURI', 'length'):
        if hasattr(type(o), a):
            try:
                out.append((a, getattr(o, a)))
            except Exception as e:
                out.append((a, 'raises ' + type(e).__name__))
    if hasattr(o, 'namespaces') and type(o).__name__ == 'CSSStyleSheet':
        out.append(('namespaces', sorted(o.namespaces.items())))
    return out


def readonly_problems(cssutils):
    """[(class, mutator, what)] - concrete, exhaustive over the classes that can be created read-only x the mutators
    they have"""
    import xml.dom
    cssutils.log.raiseExceptions = True
    bad = []
    count = 0
    for cname, obj in readonly_objects(cssutils):
        for mname, call in sorted(RO_CALLS.items()):
            if mname in ('setNamespace', 'delNamespace'):
                if cname != 'CSSStyleSheet':
                    continue
            elif not hasattr(type(obj), mname):
                continue
            elif isinstance(getattr(type(obj), mname), property) and getattr(type(obj), mname).fset is None:
                continue
            count += 1
            before = _ro_state(obj)
            newtext = {'CSSStyleSheet': 'z{y:x}', 'CSSStyleRule': 'z{y:x}', 'CSSMediaRule': '@media print{z{y:x}}',
                       'CSSPageRule': '@page{y:x}', 'CSSFontFaceRule': '@font-face{y:x}', 'CSSImportRule': '@import "k";',
                       'CSSNamespaceRule': '@namespace q "v";', 'CSSCharsetRule': '@charset "ascii";',
                       'CSSUnknownRule': '@z y;', 'CSSComment': '/*z*/', 'CSSStyleDeclaration': 'y:x',
                       'CSSVariablesDeclaration': 'y:2', 'PropertyValue': '2px'}.get(cname, RO_TEXT.get(mname))
            try:
                call(obj, newtext if mname == 'cssText' else RO_TEXT.get(mname))
                what = 'accepted'
            except xml.dom.DOMException:
                what = None          # rejected (NoModificationAllowedErr, or the argument was refused first)
            except Exception as e:
                what = 'raised %s' % type(e).__name__
            after = _ro_state(obj)
            if before != after:
                bad.append((cname, mname, 'state changed (%s)' % (what or 'although NoModificationAllowedErr was raised')))
            elif what and what != 'accepted':
                bad.append((cname, mname, what))          # a non-DOM exception: a harness call that does not fit
    return bad, count


def run_readonly():
    cssutils = common.setup_lifted()
    res = {'job': 'readonly', 'cex': [], 'timeouts': [], 'tags': {'readonly': 1}, 'samples': [], 'functions': [],
           'errors': [], 'cex_total': 0, 'wall_s': 0,
           'stats': {'paths': 1, 'decisions': 0, 'queries': 0, 'solver_time_s': 0, 'unknown_queries': 0,
                     'inconclusive_paths': [], 'realisations': 0, 'budget_exhausted': False}}
    bad, count = readonly_problems(cssutils)
    for cname, mname, what in bad:
        res['cex'].append({'job': 'readonly', 'inputs': {'readonly_class': cname, 'mutator': mname}, 'note': what})
    res['stats']['paths'] = count
    return res


def jobs(tier):
    out = []
    for mid, tname, fn, templates in MUTATORS:
        for i in range(len(templates)):
            out.append(('harness.c11', 'run_reject', dict(mid=mid, tindex=i, n=1)))
            if tier != 'quick':
                out.append(('harness.c11', 'run_reject', dict(mid=mid, tindex=i, n=2)))
                for pre in range(1, len(PRE_OPS)):
                    out.append(('harness.c11', 'run_reject', dict(mid=mid, tindex=i, n=1, pre=pre)))
    for op in INDEX_OPS:
        out.append(('harness.c11', 'run_index', dict(op=op)))
    out.append(('harness.c11', 'run_readonly', {}))
    return out


def main(tier):
    rep = common.Report(PROP, tier)
    results = common.run_jobs(jobs(tier), job_timeout_s=600 if tier == 'quick' else 2400)
    rep.add_results(results)
    cases = []
    for r in results:
        cases.extend(r['cex'])
    rep.handle_counterexamples(cases)
    rep.bounds = {'reject': '%d mutators of %d target objects inside one fixed sheet (%r), %d templates; every hole filled with every '
                            'string of length %s over all of Unicode (reduced alphabet)'
                            % (len(MUTATORS), len(TARGETS), PRE, sum(len(m[3]) for m in MUTATORS), '1' if tier == 'quick' else '<= 2'),
                  'index': 'insertRule / deleteRule on sheet, @media, @page with index in [-12, 12] (solver variable) and rule '
                           'texts %r' % RULE_MENU,
                  'readonly': 'every class that can be created read-only x every mutator it has (concrete, exhaustive)'}
    rep.assumptions = ['the observable state is harness/projection.py (all rules with selectors, declarations, media, margin '
                       'rules, namespaces), sheet.cssText, sheet.namespaces, sheet.encoding, the text of the target and the '
                       'owner links of the top-level rules', 'the @import target is served by a stub fetcher',
                       'log.raiseExceptions is True (the library default for DOM calls)']
    rep.outside = ['prior states: the fixed sheet, in the thorough tier also after one of %d accepted edit groups (PRE_OPS)' % (len(PRE_OPS) - 1), 'namespace prefix / URI holes range over the %d characters %r only (they become dictionary keys)' % (len(SMALL_ALPHABET), SMALL_ALPHABET),
                    'new content outside the templates', 'CSSVariablesRule, Value objects']
    rep.witness_required = ['accepted', 'rejected:SyntaxErr', 'rejected:HierarchyRequestErr', 'rejected:NamespaceErr',
                            'rejected:IndexSizeErr', 'rejected:NoModificationAllowedErr', 'rejected:NotFoundErr',
                            'rejected:InvalidModificationErr', 'readonly']
    return rep.finish()


# ---------------------------------------------------------------------- replay (unlifted)

def _hole_class(s):
    if not s:
        return 'empty'
    c = s[0]
    for name, chars in (('ws', ' \t\r\n\f'), ('brace', '{}'), ('paren', '()[]'), ('quote', '"\''), ('semicolon', ';'),
                        ('backslash', '\\'), ('at', '@'), ('colon', ':'), ('comma', ','), ('slash', '/'), ('bang', '!')):
        if c in chars:
            return name
    if c.isalnum() or c in '-_' or ord(c) > 127:
        return 'namechar'
    if ord(c) < 32:
        return 'control'
    return 'punct'


def replay(case):
    import xml.dom
    import cssutils
    cssutils.log.setLevel(60)
    inp = case['inputs']
    if 'readonly_class' in inp:
        bad, _ = readonly_problems(cssutils)
        for cname, mname, what in bad:
            if cname == inp['readonly_class'] and mname == inp['mutator']:
                return {'reproduced': True, 'detail': 'read-only %s: %s %s' % (cname, mname, what),
                        'fields': {'symptom': 'readonly', 'class': cname, 'mutator': mname}}
        return {'reproduced': False, 'detail': 'rejected and unchanged'}
    sheet = build(cssutils)
    if 'op' in inp:
        op = inp['op']
        target = TARGETS[op.split('.')[0]](sheet)
        before = snapshot(sheet, target)
        try:
            _index_call(cssutils, sheet, op, RULE_MENU[inp['rule']], inp['idx'])
        except xml.dom.DOMException as e:
            after = snapshot(sheet, target)
            part = changed(before, after)
            if part:
                return {'reproduced': True, 'detail': '%s(%r, %d) raised %s but %s changed: %s' % (
                    op, RULE_MENU[inp['rule']], inp['idx'], type(e).__name__, part,
                    projection.diff(before[0], after[0]) if part == 'projection' else (before[PARTS.index(part)], after[PARTS.index(part)])),
                    'fields': {'symptom': 'index', 'op': op, 'exc': type(e).__name__, 'part': part}}
        return {'reproduced': False, 'detail': 'unchanged or accepted'}
    mid, tindex, holes = inp['mutator'], inp['template'], inp['holes']
    _, tname, fn, templates = MUT[mid]
    PRE_OPS[inp.get('pre', 0)](cssutils, sheet)
    target = TARGETS[tname](sheet)
    before = snapshot(sheet, target)
    text = fill(templates[tindex], holes)
    try:
        fn(target, text)
    except xml.dom.DOMException as e:
        after = snapshot(sheet, target)
        part = changed(before, after)
        if part:
            i = PARTS.index(part)
            d = projection.diff(before[0], after[0]) if part == 'projection' else '%r -> %r' % (before[i], after[i])
            return {'reproduced': True,
                    'detail': '%s %r raised %s but %s changed: %s' % (mid, text, type(e).__name__, part, str(d)[:300]),
                    'fields': {'symptom': 'partial-commit', 'mutator': mid, 'template': templates[tindex], 'exc': type(e).__name__,
                               'part': part, 'hole': _hole_class(holes[0]) if holes else 'none'}}
        return {'reproduced': False, 'detail': 'raised %s, unchanged' % type(e).__name__}
    except Exception as e:
        return {'reproduced': False, 'detail': 'raised non-DOM %r' % e}
    return {'reproduced': False, 'detail': 'accepted'}
