"""C10 - Declaration blocks obey the ordered-multimap-with-cascade model.

step     pre-state: a block of <= M entries built from a menu (literal names color / COLOR / c\\olor / top, values,
         priorities); one operation with arguments from the menu: setProperty (replace on/off, normalize on/off),
         removeProperty (normalize on/off), item assignment (incl. the tuple form), item deletion, attribute get /
         set / del by DOM name, cssText assignment.  The reference multimap (this file, `Model`) runs in lock-step;
         afterwards getProperties(all=True), getPropertyValue / Priority, length, item(i), keys(), iteration,
         `in` and cssText agree with the model.  Finite-choice throughout (solver-driven enumeration).
names    _toDOMname / _toCSSname on a symbolic name of length <= 8 (characters solver variables over [a-z-]):
         the round trip is the identity on the language LANG (every part after a hyphen has >= 2 letters); plus,
         concretely, for every known property name attribute access by the DOM name must address the hyphenated name.
"""
from . import common

PROP = 'C10'

# names both converters invert: every part after a hyphen has two letters or more
LANG = r'(?:-[a-z]{2,}|[a-z]+)(?:-[a-z]{2,})*'

NAMES = ['color', 'c\\olor', 'top', 'COLOR']     # pre-states use the first three (a parsed 'COLOR' is stored as 'color')
VALUES = ['red', '1px']
PRIOS = ['', 'important']
PRIO_TEXT = ['', ' !important', ' ! IMPORTANT']      # spellings in a pre-state text (index 2 only in thorough)
ARG_PRIOS = ['', 'important', '!important', 'IMPORTANT']
ARG_VALUES = ['red', '1px', '"a" url(x)']
OPS = ['set', 'set_noreplace', 'set_nonormalize', 'remove', 'remove_nonormalize', 'setitem', 'setitem_tuple',
       'delitem', 'attr_get', 'attr_set', 'attr_del', 'csstext']


def norm(name):
    return name.replace('\\', '').lower()


class Model:
    """normalize=False operations compare the given name with the stored literal name exactly (the documented meaning
    of a literal lookup; the property text does not speak about them); the stored literal name is lower-cased with
    escapes kept (Property.literalname)."""
    def __init__(self):
        self.entries = []     # [literal name (lower-cased, escapes kept - Property.literalname), value, priority]

    def names(self):
        out = []
        for e in self.entries:
            if norm(e[0]) not in out:
                out.append(norm(e[0]))
        return out

    def effective(self, n):
        """index of the effective entry of normalised name n, or None"""
        last = None
        lastimp = None
        for i, e in enumerate(self.entries):
            if norm(e[0]) == n:
                last = i
                if e[2] == 'important':
                    lastimp = i
        return lastimp if lastimp is not None else last

    def set(self, name, value, prio='', replace=True, normalize=True):
        prio = prio.lstrip('!').lower()
        if replace:
            if normalize:
                i = self.effective(norm(name))
            else:
                cand = [k for k, e in enumerate(self.entries) if e[0] == name]
                imp = [k for k in cand if self.entries[k][2] == 'important']
                i = (imp or cand or [None])[-1]
            if i is not None:
                self.entries[i][1] = value
                self.entries[i][2] = prio
                return
        self.entries.append([name.lower(), value, prio])

    def remove(self, name, normalize=True):
        if normalize:
            i = self.effective(norm(name))
            r = self.entries[i][1] if i is not None else ''
            self.entries = [e for e in self.entries if norm(e[0]) != norm(name)]
        else:
            cand = [k for k, e in enumerate(self.entries) if e[0] == name]
            imp = [k for k in cand if self.entries[k][2] == 'important']
            i = (imp or cand or [None])[-1]
            r = self.entries[i][1] if i is not None else ''
            self.entries = [e for e in self.entries if e[0] != name]
        return r

    def value(self, n):
        i = self.effective(n)
        return self.entries[i][1] if i is not None else ''

    def prio(self, n):
        i = self.effective(n)
        return self.entries[i][2] if i is not None else ''


def block_text(entries):
    return ';'.join('%s:%s%s' % (n, v, ' !important' if p else '') for n, v, p in entries)


def observe_diff(cssutils, style, model):
    """None or a description of the first disagreement"""
    got = [(p.literalname, p.value, p.priority) for p in style.getProperties(all=True)]
    want = [tuple(e) for e in model.entries]
    if got != want:
        return 'entries %r, model %r' % (got, want)
    names = model.names()
    for n in names + ['left']:
        if style.getPropertyValue(n) != model.value(n):
            return 'getPropertyValue(%r) = %r, model %r' % (n, style.getPropertyValue(n), model.value(n))
        if style.getPropertyPriority(n) != model.prio(n):
            return 'getPropertyPriority(%r) = %r, model %r' % (n, style.getPropertyPriority(n), model.prio(n))
        if (n in style) != (n in names):
            return '%r in style is %r' % (n, n in style)
    if style.length != len(names):
        return 'length %r, %d distinct names' % (style.length, len(names))
    keys = list(style.keys())
    items = [style.item(i) for i in range(style.length)]
    it = [p.name for p in style]
    if sorted(keys) != sorted(names) or keys != items or sorted(it) != sorted(names):
        return 'keys %r / item(i) %r / iteration %r, distinct names %r' % (keys, items, it, names)
    if style.item(style.length) != '':
        return 'item(length) = %r' % style.item(style.length)
    # the serialisation lists the model's entries
    re_ = cssutils.css.CSSStyleDeclaration(cssText=style.cssText)
    again = [(p.literalname, p.value, p.priority) for p in re_.getProperties(all=True)]
    if again != want:
        return 'cssText %r reparses to %r, model %r' % (style.cssText, again, want)
    return None


def apply_op(cssutils, style, model, op, name, value, prio):
    """apply op to both; returns description of a result mismatch or None"""
    domname = 'color' if norm(name) == 'color' else 'top'
    if op == 'set':
        style.setProperty(name, value, prio)
        model.set(name, value, prio)
    elif op == 'set_noreplace':
        style.setProperty(name, value, prio, replace=False)
        model.set(name, value, prio, replace=False)
    elif op == 'set_nonormalize':
        style.setProperty(name, value, prio, normalize=False)
        model.set(name, value, prio, normalize=False)
    elif op == 'remove':
        r = style.removeProperty(name)
        w = model.remove(name)
        if r != w:
            return 'removeProperty(%r) returned %r, model %r' % (name, r, w)
    elif op == 'remove_nonormalize':
        r = style.removeProperty(name, normalize=False)
        w = model.remove(name, normalize=False)
        if r != w:
            return 'removeProperty(%r, normalize=False) returned %r, model %r' % (name, r, w)
    elif op == 'setitem':
        style[name] = value
        model.set(name, value, '')
    elif op == 'setitem_tuple':
        style[name] = (value, prio)
        model.set(name, value, prio)
    elif op == 'delitem':
        del style[name]
        model.remove(name)
    elif op == 'attr_get':
        r = getattr(style, domname)
        if r != model.value(domname):
            return 'style.%s = %r, model %r' % (domname, r, model.value(domname))
    elif op == 'attr_set':
        setattr(style, domname, value)
        model.set(domname, value, '')
    elif op == 'attr_del':
        delattr(style, domname)
        model.remove(domname)
    elif op == 'csstext':
        style.cssText = '%s:%s%s' % (name, value, ' !' + prio.lstrip('!') if prio else '')
        model.entries = [[name.lower(), value, prio.lstrip('!').lower()]]
    return None


def run_step(M, op):
    cssutils = common.setup_lifted()
    from sx.core import fresh_int

    def fn():
        pre = []
        choice = {}
        for i in range(M):
            a, b, c = fresh_int('n%d' % i, 0, 2), fresh_int('v%d' % i, 0, 1), fresh_int('p%d' % i, 0, 1)
            choice.update({'n%d' % i: a, 'v%d' % i: b, 'p%d' % i: c})
            pre.append([NAMES[int(a)], VALUES[int(b)], PRIOS[int(c)]])
        an, av, ap = fresh_int('an', 0, 3), fresh_int('av', 0, 2), fresh_int('ap', 0, 3)
        inputs = dict(choice, an=an, av=av, ap=ap, op=op, M=M)
        common.set_inputs(inputs)
        info = {'in': inputs, 'tags': ['op:' + op]}
        cssutils.log.raiseExceptions = True
        style = cssutils.css.CSSStyleDeclaration(cssText=block_text(pre), validating=False)
        model = Model()
        model.entries = [[e[0].lower(), e[1], e[2]] for e in pre]
        d = observe_diff(cssutils, style, model)
        if d:
            info['note'] = 'pre-state %r: %s' % (pre, d)
            return False, info
        name, value, prio = NAMES[int(an)], ARG_VALUES[int(av)], ARG_PRIOS[int(ap)]
        try:
            d = apply_op(cssutils, style, model, op, name, value, prio)
        except Exception as ex:
            info['note'] = 'pre-state %r; %s(%r, %r, %r) raised %s: %s' % (pre, op, name, value, prio, type(ex).__name__, str(ex)[:80])
            return False, info
        if not d:
            d = observe_diff(cssutils, style, model)
        if d:
            info['note'] = 'pre-state %r; %s(%r, %r, %r): %s' % (pre, op, name, value, prio, d)
            return False, info
        return True, info

    return common.explore(fn, 'step(M=%d,%s)' % (M, op), path_timeout_s=120.0)


VNAMES = ['x', 'X', '\\x', 'y']
VVALUES = ['1', '2']
VOPS = ['set', 'remove', 'setitem', 'delitem', 'csstext', 'get']


def vnorm(name):
    return name.replace('\\', '').lower()


def vobserve(cssutils, block, model):
    keys = list(block.keys())
    if sorted(keys) != sorted(model):
        return 'keys %r, model %r' % (keys, sorted(model))
    if block.length != len(model) or [block.item(i) for i in range(block.length)] != keys or list(block) != keys:
        return 'length %r / item(i) / iteration disagree with keys %r' % (block.length, keys)
    for n in list(model) + ['z']:
        if block.getVariableValue(n) != model.get(n, ''):
            return 'getVariableValue(%r) = %r, model %r' % (n, block.getVariableValue(n), model.get(n, ''))
        if (n in block) != (n in model):
            return '%r in block is %r' % (n, n in block)
    again = cssutils.css.CSSVariablesDeclaration(cssText=block.cssText)
    listed = dict((k, again.getVariableValue(k)) for k in again.keys())
    if listed != model:
        return 'cssText %r lists %r, the API reports %r' % (block.cssText, listed, model)
    return None


def vapply(block, model, op, name, value):
    n = vnorm(name)
    if op == 'set':
        block.setVariable(name, value)
        model[n] = value
    elif op == 'setitem':
        block[name] = value
        model[n] = value
    elif op in ('remove', 'delitem'):
        want = model.pop(n, '')
        if op == 'remove':
            r = block.removeVariable(name)
            if r != want:
                return 'removeVariable(%r) returned %r, model %r' % (name, r, want)
        else:
            del block[name]
    elif op == 'csstext':
        block.cssText = '%s:%s' % (name, value)
        model.clear()
        model[n] = value
    elif op == 'get':
        if block[name] != model.get(n, ''):
            return 'block[%r] = %r, model %r' % (name, block[name], model.get(n, ''))
    return None


def vmodel(pre):
    m = {}
    for n, v in pre:
        m[vnorm(n)] = v
    return m


def run_vars(M, op):
    cssutils = common.setup_lifted()
    from sx.core import fresh_int

    def fn():
        pre = []
        inputs = {'vop': op, 'M': M}
        for i in range(M):
            a, b = fresh_int('n%d' % i, 0, 3), fresh_int('v%d' % i, 0, 1)
            inputs.update({'n%d' % i: a, 'v%d' % i: b})
            pre.append((VNAMES[int(a)], VVALUES[int(b)]))
        an, av = fresh_int('an', 0, 3), fresh_int('av', 0, 1)
        inputs.update(an=an, av=av)
        common.set_inputs(inputs)
        info = {'in': inputs, 'tags': ['vop:' + op]}
        cssutils.log.raiseExceptions = True
        block = cssutils.css.CSSVariablesDeclaration(cssText=';'.join('%s:%s' % e for e in pre))
        model = vmodel(pre)
        d = vobserve(cssutils, block, model)
        if d:
            info['note'] = 'pre-state %r: %s' % (pre, d)
            return False, info
        name, value = VNAMES[int(an)], VVALUES[int(av)]
        try:
            d = vapply(block, model, op, name, value)
        except Exception as ex:
            info['note'] = 'pre-state %r; %s(%r, %r) raised %s: %s' % (pre, op, name, value, type(ex).__name__, str(ex)[:80])
            return False, info
        d = d or vobserve(cssutils, block, model)
        if d:
            info['note'] = 'pre-state %r; %s(%r, %r): %s' % (pre, op, name, value, d)
            return False, info
        return True, info

    return common.explore(fn, 'vars(M=%d,%s)' % (M, op), path_timeout_s=120.0)


def run_names(n):
    cssutils = common.setup_lifted()
    from cssutils.css import cssproperties
    from sx.symstr import fresh_str
    from sx.mask import Mask
    from sx import symre
    lang = symre.re_facade.compile(LANG)

    def fn():
        s = fresh_str(n, mask=Mask.of('abcdefghijklmnopqrstuvwxyz-'))
        inputs = {'name': s}
        common.set_inputs(inputs)
        inlang = bool(lang.fullmatch(s))
        info = {'in': inputs, 'tags': ['inlang' if inlang else 'outside']}
        back = cssproperties._toCSSname(cssproperties._toDOMname(s))
        if inlang:
            return (back == s), info
        return True, info

    return common.explore(fn, 'names(n=%d)' % n, path_timeout_s=120.0)


def known_name_problems(cssutils):
    """concrete, exhaustive over the live table of known property names"""
    import re
    from cssutils.css import cssproperties
    bad = []
    for name in sorted(set(cssutils.profile.knownNames)):
        dom = cssproperties._toDOMname(name)
        st = cssutils.css.CSSStyleDeclaration(validating=False)
        try:
            setattr(st, dom, 'inherit')
            if st.getPropertyValue(name) != 'inherit' or getattr(st, dom) != 'inherit':
                bad.append(name)
            delattr(st, dom)
            if st.getPropertyValue(name) != '':
                bad.append(name)
        except Exception:
            bad.append(name)
    return bad


def run_known():
    cssutils = common.setup_lifted()
    res = {'job': 'known-names', 'cex': [], 'timeouts': [], 'tags': {'known-names': 1}, 'samples': [], 'functions': [],
           'errors': [], 'cex_total': 0, 'wall_s': 0,
           'stats': {'paths': 1, 'decisions': 0, 'queries': 0, 'solver_time_s': 0, 'unknown_queries': 0,
                     'inconclusive_paths': [], 'realisations': 0, 'budget_exhausted': False}}
    for name in known_name_problems(cssutils):
        res['cex'].append({'job': 'known-names', 'inputs': {'known_name': name}, 'note': 'DOM-name access does not address it'})
    res['stats']['paths'] = len(set(cssutils.profile.knownNames))
    return res


def jobs(tier):
    out = []
    M = 2 if tier == 'quick' else 3
    for m in range(0, M + 1):
        for op in OPS:
            out.append(('harness.c10', 'run_step', dict(M=m, op=op)))
    for m in range(0, M + 2):
        for op in VOPS:
            out.append(('harness.c10', 'run_vars', dict(M=m, op=op)))
    for n in range(1, 7 if tier == 'quick' else 9):
        out.append(('harness.c10', 'run_names', dict(n=n)))
    out.append(('harness.c10', 'run_known', {}))
    return out


def main(tier):
    rep = common.Report(PROP, tier)
    results = common.run_jobs(jobs(tier), job_timeout_s=900 if tier == 'quick' else 4000)
    rep.add_results(results)
    cases = []
    for r in results:
        cases.extend(r['cex'])
    rep.handle_counterexamples(cases)
    M = 2 if tier == 'quick' else 3
    rep.bounds = {'step': 'pre-states of <= %d entries over names %r x values %r x priorities %r; operations %r with '
                          'arguments from the same menus' % (M, NAMES, VALUES, PRIOS, OPS),
                  'variables': 'variable blocks of <= %d entries over names %r x values %r; operations %r' % (M + 1, VNAMES, VVALUES, VOPS),
                  'names': 'every string of length <= %d over [a-z-] (characters solver variables)' % (6 if tier == 'quick' else 8),
                  'known names': 'all names in cssutils.profile.knownNames (read live), concretely'}
    rep.assumptions = ['reference multimap harness/c10.py Model; the block harness is finite-choice (leverage ~ 1), the name '
                       'mapping is solver-quantified']
    rep.outside = ['blocks longer than %d entries (variables: %d)' % (M, M + 1)]
    rep.witness_required = ['inlang', 'outside', 'known-names'] + ['op:' + o for o in OPS] + ['vop:' + o for o in VOPS]
    return rep.finish()


# ---------------------------------------------------------------------- replay (unlifted)

def replay(case):
    import cssutils
    cssutils.log.setLevel(60)
    cssutils.log.raiseExceptions = True
    inp = case['inputs']
    if 'known_name' in inp:
        bad = known_name_problems(cssutils)
        if inp['known_name'] in bad:
            from cssutils.css import cssproperties
            n = inp['known_name']
            return {'reproduced': True, 'detail': 'known property %r: DOM name %r maps back to %r' % (
                n, cssproperties._toDOMname(n), cssproperties._toCSSname(cssproperties._toDOMname(n))),
                'fields': {'symptom': 'known-name', 'name': n}}
        return {'reproduced': False, 'detail': 'name fine'}
    if 'name' in inp:
        import re
        from cssutils.css import cssproperties
        s = inp['name']
        back = cssproperties._toCSSname(cssproperties._toDOMname(s))
        if re.fullmatch(LANG, s) and back != s:
            return {'reproduced': True, 'detail': '_toCSSname(_toDOMname(%r)) = %r' % (s, back),
                    'fields': {'symptom': 'name-mapping', 'name': s}}
        return {'reproduced': False, 'detail': 'round trip fine or name outside the language'}
    if 'vop' in inp:
        M, op = inp['M'], inp['vop']
        pre = [(VNAMES[inp['n%d' % i]], VVALUES[inp['v%d' % i]]) for i in range(M)]
        name, value = VNAMES[inp['an']], VVALUES[inp['av']]
        text = ';'.join('%s:%s' % e for e in pre)
        block = cssutils.css.CSSVariablesDeclaration(cssText=text)
        model = vmodel(pre)
        d = vobserve(cssutils, block, model)
        if d:
            return {'reproduced': True, 'detail': 'variables %r: %s' % (text, d),
                    'fields': {'symptom': 'vars-prestate', 'what': d.split(' ')[0]}}
        try:
            d = vapply(block, model, op, name, value)
        except Exception as e:
            return {'reproduced': True, 'detail': 'variables %r; %s(%r, %r) raised %r' % (text, op, name, value, e),
                    'fields': {'symptom': 'vars-raises', 'op': op, 'exc': type(e).__name__}}
        d = d or vobserve(cssutils, block, model)
        if not d:
            return {'reproduced': False, 'detail': 'agrees with the model'}
        return {'reproduced': True, 'detail': 'variables %r; %s(%r, %r): %s' % (text, op, name, value, d),
                'fields': {'symptom': 'vars-after-op', 'op': op, 'what': d.split(' ')[0], 'name': name}}
    M, op = inp['M'], inp['op']
    pre = [[NAMES[inp['n%d' % i]], VALUES[inp['v%d' % i]], PRIOS[inp['p%d' % i]]] for i in range(M)]
    name, value, prio = NAMES[inp['an']], ARG_VALUES[inp['av']], ARG_PRIOS[inp['ap']]
    style = cssutils.css.CSSStyleDeclaration(cssText=block_text(pre), validating=False)
    model = Model()
    model.entries = [[e[0].lower(), e[1], e[2]] for e in pre]
    d = observe_diff(cssutils, style, model)
    if d:
        return {'reproduced': True, 'detail': 'block %r: %s' % (block_text(pre), d),
                'fields': {'symptom': 'prestate', 'what': d.split(' ')[0]}}
    try:
        d = apply_op(cssutils, style, model, op, name, value, prio)
    except Exception as e:
        return {'reproduced': True, 'detail': 'block %r; %s(%r, %r, %r) raised %r' % (block_text(pre), op, name, value, prio, e),
                'fields': {'symptom': 'raises', 'op': op, 'exc': type(e).__name__}}
    if not d:
        d = observe_diff(cssutils, style, model)
    if not d:
        return {'reproduced': False, 'detail': 'agrees with the model'}
    return {'reproduced': True, 'detail': 'block %r; %s(%r, %r, %r): %s' % (block_text(pre), op, name, value, prio, d),
            'fields': {'symptom': 'after-op', 'op': op, 'what': d.split(' ')[0], 'name': name,
                       'escaped_name_involved': '\\' in name or any('\\' in e[0] for e in pre),
                       'same_norm_different_literal': len({e[0] for e in pre if norm(e[0]) == norm(name)} | {name}) > 1}}
