"""C16 - Selector specificity, structure and list semantics.

count    selectors assembled from a derivation of the CSS3 selector grammar chosen by solver variables
         (<= 2 compounds; per compound: type / universal / none, <= 2 ids, <= 2 classes, <= 1 attribute with one
         of 7 operator forms, <= 1 pseudo-class (plain or functional with an+b), <= 1 pseudo-element (both colon
         forms, legacy names), <= 1 :not(arg) with each argument kind; 4 combinators), the expected (0,b,c,d)
         accumulated by the generator; every letter of element names, pseudo names and ':not' is in symbolic case,
         gaps around combinators are symbolic fillers.  Selector(text).specificity must equal the count; the
         serialised selector reparses to the same sequence and specificity; attaching the selector to a sheet
         leaves the specificity.
list     SelectorList: <= 3 members from a menu + one invalid; order kept; whole list rejected if any member is
         invalid; appending a selector already present moves it to the end.
"""
from . import common

PROP = 'C16'

TYPES = [('', (0, 0, 0)), ('e', (0, 0, 1)), ('*', (0, 0, 0))]
IDS = [('', (0, 0, 0)), ('#i', (1, 0, 0)), ('#i#j', (2, 0, 0))]
CLASSES = [('', (0, 0, 0)), ('.c', (0, 1, 0)), ('.c.d', (0, 2, 0))]
ATTRS = [('', (0, 0, 0)), ('[a]', (0, 1, 0)), ('[a=b]', (0, 1, 0)), ('[a~="b"]', (0, 1, 0)), ('[a|=b]', (0, 1, 0)),
         ('[a^=b]', (0, 1, 0)), ('[a$=b]', (0, 1, 0)), ('[a*=b]', (0, 1, 0))]
# the property counts ID, class + attribute, type + pseudo-element; pseudo-classes are not counted
PSEUDOCLASS = [('', (0, 0, 0)), (':hover', (0, 0, 0)), (':nth-child(2n+1)', (0, 0, 0)), (':lang(en)', (0, 0, 0)),
               (':nth-last-child(-n+3)', (0, 0, 0)), (':first-child', (0, 0, 0))]
NOT = [('', (0, 0, 0)), (':not(e)', (0, 0, 1)), (':not(#i)', (1, 0, 0)), (':not(.c)', (0, 1, 0)),
       (':not([a])', (0, 1, 0)), (':not(:hover)', (0, 0, 0)), (':not(*)', (0, 0, 0)),
       # cssutils accepts a pseudo-element as argument; what it accepts it has to count ('of its argument')
       (':not(::first-letter)', (0, 0, 1)), (':not(:first-line)', (0, 0, 1)), (':not(*|e)', (0, 0, 1)), (':not([a=b])', (0, 1, 0))]
PSEUDOEL = [('', (0, 0, 0)), ('::after', (0, 0, 1)), (':before', (0, 0, 1)), (':first-line', (0, 0, 1)),
            ('::first-letter', (0, 0, 1))]
COMBINATORS = [' ', '>', '+', '~']
GAPS = ['', ' ', '  ', '/**/', ' /**/ ']
CASED = ('hover', 'nth-child', 'lang', 'nth-last-child', 'first-child', 'not', 'after', 'before', 'first-line',
         'first-letter')


SPELLINGS = 4


def _variant(word, k):
    if k == 0:
        return word
    if k == 1:
        return word.upper()
    if k == 2:
        return word.capitalize()
    return ''.join(c.upper() if i % 2 else c.lower() for i, c in enumerate(word))


def _spell(e, text, choices, spelling):
    """names in one of four spellings (lower, UPPER, Capitalised, aLtErNaTiNg), chosen per name by a solver
    variable (finite choice); punctuation concrete"""
    import re
    from sx.core import fresh_int
    parts = []
    for tok in re.split(r'([A-Za-z-]+)', text):
        if tok in CASED:
            parts.append(_variant(tok, int(spelling)))
        elif tok:
            parts.append(tok)
    return ''.join(parts)


def run_count(ncomp, with_not, max_nondefault=2):
    cssutils = common.setup_lifted()
    from sx.core import eng, fresh_int, sym_and
    from sx import symre

    def fn():
        e = eng()
        choices = {}
        total = [0, 0, 0]
        text_parts = []
        plain_parts = []
        import z3
        menus = [('type', TYPES), ('id', IDS), ('class', CLASSES), ('attr', ATTRS), ('pc', PSEUDOCLASS),
                 ('not', NOT), ('pe', PSEUDOEL)]
        # all choice variables first, then the "at most k non-empty parts" constraint, then realisation
        for ci in range(ncomp):
            for name, menu in menus:
                if name == 'not' and not with_not:
                    continue
                if name == 'pe' and ci != ncomp - 1:
                    continue
                choices['%s%d' % (name, ci)] = fresh_int('%s%d' % (name, ci), 0,
                                                         len(menu) - 1 if ncomp == 1 else min(2, len(menu) - 1))
        e.assume(sum(z3.If(v.e == 0, 0, 1) for kk, v in choices.items() if kk != 'spelling') <= max_nondefault)
        spelling = fresh_int('spelling', 0, SPELLINGS - 1 if ncomp == 1 else 0)
        choices['spelling'] = spelling
        for ci in range(ncomp):
            comp = ''
            for name, menu in menus:
                v = choices.get('%s%d' % (name, ci))
                if v is None:
                    continue
                t, spec = menu[int(v)]
                for k in range(3):
                    total[k] += spec[k]
                comp += t
            if not comp:
                comp = '*'
            if ci:
                comb = fresh_int('comb%d' % ci, 0, 3)
                g1 = fresh_int('gap%d' % ci, 0, len(GAPS) - 1)
                choices.update({'comb%d' % ci: comb, 'gap%d' % ci: g1})
                cb = COMBINATORS[int(comb)]
                if cb == ' ':
                    text_parts.append(' ')
                    plain_parts.append(' ')
                else:
                    text_parts.append(GAPS[int(g1)] + cb + GAPS[(int(g1) + 1) % len(GAPS)])
                    plain_parts.append(cb)
            text_parts.append(_spell(e, comp, choices, spelling))
            plain_parts.append(comp)
        text = ''.join(text_parts)
        inputs = dict(choices, text=text, plain=''.join(plain_parts), expected=[0] + total)
        common.set_inputs(inputs)
        info = {'in': inputs, 'tags': ['count']}
        cssutils.log.raiseExceptions = True
        try:
            sel = cssutils.css.Selector(text)
        except Exception as ex:
            info['note'] = 'Selector(%r) raised %s: %s' % (''.join(plain_parts), type(ex).__name__, str(ex)[:100])
            return False, info
        if tuple(sel.specificity) != tuple([0] + total):
            info['note'] = 'specificity %r, counted %r' % (sel.specificity, [0] + total)
            return False, info
        try:
            out = sel.selectorText
            sel2 = cssutils.css.Selector(out)
            if tuple(sel2.specificity) != tuple(sel.specificity) or _struct(sel, True) != _struct(sel2, True):
                info['note'] = 'serialised selector reparses differently'
                return False, info
            # white space and comments do not change the structure
            plain_sel = cssutils.css.Selector(''.join(plain_parts))
            if _struct(sel, False) != _struct(plain_sel, False):
                info['note'] = 'gaps change the sequence of simple selectors and combinators: %r vs %r' % (
                    _struct(sel, False), _struct(plain_sel, False))
                return False, info
            # attaching to a sheet leaves specificity
            sheet = cssutils.css.CSSStyleSheet()
            rule = cssutils.css.CSSStyleRule()
            rule.selectorList.appendSelector(sel) if False else None
            rule.selectorText = out
            rule.style.setProperty('x', '1')
            sheet.add(rule)
            if tuple(rule.selectorList[0].specificity) != tuple(sel.specificity):
                info['note'] = 'specificity changes when attached to a sheet'
                return False, info
        except Exception as ex:
            info['note'] = 'round trip raised %s: %s' % (type(ex).__name__, str(ex)[:100])
            return False, info
        return True, info

    return common.explore(fn, 'count(ncomp=%d,not=%s,max=%d)' % (ncomp, with_not, max_nondefault), path_timeout_s=120.0)


def _struct(sel, with_comments):
    out = []
    for it in sel.seq:
        v = it.value
        if it.type == 'COMMENT':
            if with_comments:
                out.append(('COMMENT', v.cssText))
            continue
        if isinstance(v, tuple):
            v = tuple(v)
        if isinstance(v, str):
            v = v.lower()
        out.append((it.type, v))
    return out


LIST_MENU = ['a', 'b.c', '#i', 'a > b', 'a:hover']
INVALID = ['a,,', 'a >', '[', 'a:not(', '$']


def run_list(op):
    cssutils = common.setup_lifted()
    import xml.dom
    from sx.core import fresh_int

    def fn():
        k = 3
        idx = [fresh_int('m%d' % i, 0, len(LIST_MENU) - 1) for i in range(k)]
        extra = fresh_int('x', 0, len(LIST_MENU) + len(INVALID) - 1)
        inputs = {'members': list(idx), 'extra': extra, 'op': op}
        common.set_inputs(inputs)
        info = {'in': inputs, 'tags': ['list:' + op]}
        members = []
        for i in idx:
            m = LIST_MENU[int(i)]
            if m not in members:
                members.append(m)
        x = int(extra)
        new = LIST_MENU[x] if x < len(LIST_MENU) else INVALID[x - len(LIST_MENU)]
        valid = x < len(LIST_MENU)
        d = check_list(cssutils, members, new, valid, op)
        if d:
            info['note'] = d
            return False, info
        info['tags'].append('valid' if valid else 'invalid')
        return True, info

    return common.explore(fn, 'list(%s)' % op)


def check_list(cssutils, members, new, valid, op):
    import xml.dom
    cssutils.log.raiseExceptions = True
    sl = cssutils.css.SelectorList(selectorText=', '.join(members))
    got = [s.selectorText for s in sl]
    if got != members:
        return 'list %r parsed as %r' % (members, got)
    before = list(got)
    try:
        if op == 'append':
            sl.appendSelector(new)
            want = [m for m in members if m != new] + [new]
        elif op == 'settext':
            sl.selectorText = ', '.join(members + [new])
            want = members + [new]
        else:
            sl[0] = new
            want = [new] + members[1:]
        accepted = True
    except xml.dom.DOMException:
        accepted = False
    except Exception as e:
        return 'list %r; %s(%r) raised %s' % (members, op, new, type(e).__name__)
    now = [s.selectorText for s in sl]
    if not valid:
        if accepted and now != before:
            return 'list %r; %s(%r): invalid member accepted, list is now %r' % (members, op, new, now)
        if now != before:
            return 'list %r; rejected %s(%r) changed the list to %r' % (members, op, new, now)
        return None
    if not accepted:
        return 'list %r; %s(%r) was rejected' % (members, op, new)
    if op == 'setitem':
        return None if now[0] == new else 'item assignment not stored: %r' % now
    if now != want:
        return 'list %r; %s(%r) gives %r, expected %r' % (members, op, new, now, want)
    if sl.length != len(now):
        return 'length %r vs %d members' % (sl.length, len(now))
    return None


def jobs(tier):
    out = [('harness.c16', 'run_count', dict(ncomp=1, with_not=True, max_nondefault=2 if tier == 'quick' else 3)),
           ('harness.c16', 'run_count', dict(ncomp=2, with_not=False, max_nondefault=2)),
           ('harness.c16', 'run_count', dict(ncomp=2, with_not=True, max_nondefault=2 if tier == 'quick' else 3))]
    for op in ('append', 'settext', 'setitem'):
        out.append(('harness.c16', 'run_list', dict(op=op)))
    return out


def main(tier):
    rep = common.Report(PROP, tier)
    results = common.run_jobs(jobs(tier), job_timeout_s=700)
    rep.add_results(results)
    cases = []
    for r in results:
        cases.extend(r['cex'])
    rep.handle_counterexamples(cases)
    rep.bounds = {'count': 'all derivations with 1 and 2 compounds that use at most %d non-empty parts in total (every part kind '
                           'alone and all pairs%s), letter case of names symbolic, gaps from %r' % (
                               2 if tier == 'quick' else 3, '' if tier == 'quick' else ' and triples', GAPS),
                  'list': 'lists of <= 3 members from %r, one more member from the menu or from %r; append / selectorText / '
                          'item assignment' % (LIST_MENU, INVALID)}
    rep.assumptions = ['derivation choice is finite (solver-driven enumeration); letter case is solver-quantified',
                       'expected specificity is accumulated by the generator (harness/c16.py menus)']
    rep.outside = ['more than 2 compounds', 'namespaced selectors (C15)', 'token-level machine with symbolic token values']
    rep.witness_required = ['count', 'valid', 'invalid']
    return rep.finish()


# ---------------------------------------------------------------------- replay (unlifted)

def replay(case):
    import cssutils
    cssutils.log.setLevel(60)
    cssutils.log.raiseExceptions = True
    inp = case['inputs']
    if 'op' in inp:
        members = []
        for i in inp['members']:
            m = LIST_MENU[i]
            if m not in members:
                members.append(m)
        x = inp['extra']
        new = LIST_MENU[x] if x < len(LIST_MENU) else INVALID[x - len(LIST_MENU)]
        d = check_list(cssutils, members, new, x < len(LIST_MENU), inp['op'])
        if not d:
            return {'reproduced': False, 'detail': 'list semantics fine'}
        return {'reproduced': True, 'detail': d, 'fields': {'symptom': 'list', 'op': inp['op'], 'new': new,
                                                            'present': new in members}}
    text, want = inp['text'], inp['expected']
    try:
        sel = cssutils.css.Selector(text)
    except Exception as e:
        return {'reproduced': True, 'detail': 'Selector(%r) raised %r' % (text, e),
                'fields': {'symptom': 'raises', 'plain': inp['plain'], 'exc': type(e).__name__,
                           'lowercase_ok': _lower_ok(cssutils, inp['plain'])}}
    if list(sel.specificity) != want:
        return {'reproduced': True, 'detail': 'Selector(%r).specificity = %r, counted %r' % (text, sel.specificity, want),
                'fields': {'symptom': 'specificity', 'plain': inp['plain'],
                           'lowercase_ok': _lower_ok(cssutils, inp['plain'], want)}}
    out = sel.selectorText
    sel2 = cssutils.css.Selector(out)
    if tuple(sel2.specificity) != tuple(sel.specificity) or _struct(sel, True) != _struct(sel2, True):
        return {'reproduced': True, 'detail': 'Selector(%r) serialises as %r which reparses differently' % (text, out),
                'fields': {'symptom': 'roundtrip', 'plain': inp['plain']}}
    plain_sel = cssutils.css.Selector(inp['plain'])
    if _struct(sel, False) != _struct(plain_sel, False):
        return {'reproduced': True,
                'detail': 'Selector(%r) has the structure %r, the same selector without gaps %r has %r'
                          % (text, _struct(sel, False), inp['plain'], _struct(plain_sel, False)),
                'fields': {'symptom': 'gap-structure', 'plain': inp['plain'],
                           'comment_next_to_space': '/**/ ' in text or ' /**/' in text}}
    return {'reproduced': False, 'detail': 'selector fine'}


def _lower_ok(cssutils, plain, want=None):
    try:
        s = cssutils.css.Selector(plain)
        return want is None or list(s.specificity) == want
    except Exception:
        return False
