"""C17 - Media lists are canonical ordered sets; media queries survive intact.

step     pre-state = MediaList built from <= 3 items out of a menu (simple media types with every letter in
         symbolic case, 'all', a query with features, a leading comment), stand-alone / owned by @media / owned by
         @import; one operation (appendMedium, deleteMedium, item assignment, mediaText assignment) with an
         argument from the menu (symbolic case) or an invalid text; afterwards the list must agree with the
         reference ordered-set model (ref: harness/c17.py Model) and with itself: mediaText reparses to an equal
         list, length == number of iterated items, item(i) agrees with iteration.
queries  media queries generated from the grammar with symbolic digits: parse -> serialise -> parse keeps type,
         every feature, value and their order; one malformed query invalidates the whole list.
"""
from . import common

PROP = 'C17'

TYPES = ['tv', 'print', 'screen', 'handheld']
ITEMS = ['tv', 'print', 'screen', 'all', 'tv and (min-width:1px)', 'print and (color)']
ARGS = ['tv', 'print', 'handheld', 'all', 'tv and (min-width:1px)', 'x y', ',']
OPS = ['append', 'delete', 'setitem', 'settext']
OWNERS = ['alone', 'media', 'import']


class Model:
    """reference: ordered set of media queries keyed by (media type, features); 'all' absorbs"""

    def __init__(self, items):
        self.items = []
        for it in items:
            self._add_parsed(it)

    @staticmethod
    def key(text):
        """normalised spelling of a query (works on str and on SX SymStr)"""
        from ref._ops import cat
        t = text.strip().lower()
        for a, b in (('(', ' ( '), (')', ' ) '), (':', ' : ')):
            t = t.replace(a, b)
        out = []
        for i, part in enumerate(t.split()):
            if i:
                out.append(' ')
            out.append(part)
        return cat(out) if out else ''

    @staticmethod
    def mtype(text):
        w = text.strip().lower().split()
        if w and (w[0] == 'not' or w[0] == 'only'):
            w = w[1:]
        return w[0] if w and not w[0].startswith('(') else None

    @classmethod
    def simple(cls, text):
        return cls.key(text) == (cls.mtype(text) or '')

    def _add_parsed(self, text):
        if self.items == ['all']:
            return
        if self.key(text) == 'all':
            self.items = ['all']
            return
        if self.simple(text) and self.key(text) in [self.key(x) for x in self.items]:
            return          # a simple media type is kept once; queries with features are separate items
        self.items.append(text)

    def simple_types(self):
        return [self.mtype(x) if self.simple(x) else None for x in self.items]

    def append(self, text):
        """returns 'rejected' or 'ok'"""
        if self.items == ['all']:
            return 'rejected'
        if self.key(text) == 'all':
            self.items = ['all']
            return 'ok'
        keys = [self.key(x) for x in self.items]
        if self.simple(text) and self.key(text) in keys:
            del self.items[keys.index(self.key(text))]
        self.items.append(text)
        return 'ok'

    def delete(self, mtype):
        types = self.simple_types()
        if mtype.lower() in types:
            del self.items[types.index(mtype.lower())]
            return 'ok'
        return 'rejected'

    def keys(self):
        return [self.key(x) for x in self.items]


def _valid_query(text):
    t = text.strip()
    return bool(t) and t not in (',',) and t != 'x y'


def _mq(item):
    """iteration yields sequence items whose value is the MediaQuery"""
    return item.value if hasattr(item, 'value') and not hasattr(item, 'mediaText') else item


def observe(cssutils, ml):
    """what the list reports about itself"""
    it = [_mq(q).mediaText for q in ml]
    itypes = [_mq(q).mediaType for q in ml]
    return {
        'itypes': itypes,
        'iter': it, 'length': ml.length, 'text': ml.mediaText,
        'items': [ml.item(i) for i in range(ml.length)],
        'beyond': ml.item(ml.length),
    }


def self_consistent(cssutils, ml):
    """None or a description"""
    try:
        o = observe(cssutils, ml)
    except Exception as e:
        return 'observing the list raised %s: %s' % (type(e).__name__, str(e)[:100])
    if o['length'] != len(o['iter']):
        return 'length %r but %d items iterated' % (o['length'], len(o['iter']))
    if len(o['items']) != len(o['itypes']) or any(not (a == b) for a, b in zip(o['items'], o['itypes'])):
        return 'item(i) %r disagrees with iteration %r' % (o['items'], o['itypes'])
    if o['beyond'] is not None:
        return 'item(length) is %r, not None' % (o['beyond'],)
    if not o['iter']:
        return None if o['text'] in ('all', '') or o['text'].startswith('/*') else 'empty list serialises as %r' % o['text']
    try:
        re = cssutils.stylesheets.MediaList(o['text'])
    except Exception as e:
        return 'mediaText %r does not reparse: %s' % (o['text'], type(e).__name__)
    if not o['iter'] and o['text'] == 'all':
        return None          # an empty list means 'all'
    if [Model.key(_mq(q).mediaText) for q in re] != [Model.key(x) for x in o['iter']]:
        return 'mediaText %r reparses to %r, list holds %r' % (o['text'], [_mq(q).mediaText for q in re], o['iter'])
    return None


def _build(cssutils, owner, text):
    ss = cssutils.stylesheets
    if owner == 'alone':
        return ss.MediaList(text), None
    if owner == 'media':
        r = cssutils.css.CSSMediaRule(mediaText=text)
        return r.media, r
    r = cssutils.css.CSSImportRule(href='x.css', mediaText=text)
    return r.media, r


def run_step(owner, op, k, comment):
    cssutils = common.setup_lifted()
    import xml.dom
    from sx.core import eng, fresh_int
    from sx import symre
    from .c13 import _cased

    def fn():
        e = eng()
        idx = [fresh_int('item%d' % i, 0, len(ITEMS) - 1) for i in range(k)]
        arg = fresh_int('arg', 0, len(ARGS) - 1)
        pos = fresh_int('pos', 0, max(k - 1, 0))
        inputs = {'owner': owner, 'op': op, 'items': list(idx), 'arg': arg, 'pos': pos, 'comment': comment}
        common.set_inputs(inputs)
        info = {'in': inputs, 'tags': ['op:' + op]}
        chosen = [ITEMS[int(i)] for i in idx]
        argtext = ARGS[int(arg)]
        # symbolic letter case of the simple media types
        spelled = [_cased(e, c, 'case') if c in TYPES or c == 'all' else c for c in chosen]
        argsp = _cased(e, argtext, 'acase') if argtext in TYPES or argtext == 'all' else argtext
        inputs['spelled'] = list(spelled)
        inputs['arg_spelled'] = argsp
        parts = []
        for i, sp in enumerate(spelled):
            if i:
                parts.append(', ')
            parts.append(sp)
        text = symre._join((['/*c*/ '] if comment else []) + parts, False) if parts else ''
        cssutils.log.raiseExceptions = True
        try:
            ml, rule = _build(cssutils, owner, text if k else None)
        except xml.dom.DOMException:
            info['tags'].append('prestate-rejected')
            return True, info
        model = Model(chosen if (chosen or ml.length == 0) else ['all'])
        d = compare_with_model(cssutils, ml, model)
        if d:
            info['note'] = 'pre-state %r: %s' % (chosen, d)
            return False, info
        try:
            if op == 'append':
                want = model.append(argtext) if _valid_query(argtext) else 'rejected'
                ml.appendMedium(argsp)
            elif op == 'delete':
                mt = Model.mtype(argtext) or argtext
                want = model.delete(mt) if _valid_query(argtext) and ' ' not in argtext.strip() else 'rejected'
                ml.deleteMedium(argsp)
            elif op == 'setitem':
                if int(pos) >= len(model.items) or comment:
                    info['tags'].append('setitem-skipped')
                    return True, info
                want = 'ok' if _valid_query(argtext) else 'rejected'
                if want == 'ok':
                    model.items[int(pos)] = argtext
                ml[int(pos)] = argsp
            else:
                want = 'ok' if _valid_query(argtext) else 'rejected'
                if want == 'ok':
                    model = Model([argtext])
                ml.mediaText = argsp
            got = 'ok'
        except xml.dom.DOMException as ex:
            got = 'rejected'
        except Exception as ex:
            info['note'] = 'pre-state %r; %s(%r) raised %s: %s' % (chosen, op, argtext, type(ex).__name__, str(ex)[:100])
            return False, info
        info['tags'].append(got)
        if op in ('append', 'setitem') and got == 'ok' and want == 'rejected' and not _valid_query(argtext):
            # invalid new medium silently ignored (returns False) is also a rejection
            got = 'rejected'
        if got != want:
            info['note'] = 'pre-state %r; %s(%r): %s, the model says %s' % (chosen, op, argtext, got, want)
            return False, info
        if op == 'setitem' and got == 'ok':
            d = self_consistent(cssutils, ml)
        else:
            d = compare_with_model(cssutils, ml, model)
        if d:
            info['note'] = 'pre-state %r; %s(%r) -> %s: %s' % (chosen, op, argtext, got, d)
            return False, info
        return True, info

    return common.explore(fn, 'step(%s,%s,k=%d,comment=%s)' % (owner, op, k, comment), path_timeout_s=120.0)


def compare_with_model(cssutils, ml, model):
    d = self_consistent(cssutils, ml)
    if d:
        return d
    got = [Model.key(_mq(q).mediaText) for q in ml]
    want = model.keys() or []
    if got != want:
        if not want and got == ['all']:
            return None
        if not got and want == []:
            return None
        return 'list holds %r, the model %r' % (got, want)
    if not got and ml.mediaText not in ('all', ''):
        return 'empty list serialises as %r' % ml.mediaText
    return None


QUERY_SHAPES = [
    'tv and (min-width:{a}px)', 'not print and (color)', 'only screen and (max-width:{a}em) and (min-height:{b}px)',
    'screen and (max-height:{a}.{b}cm)', '(min-width:{a}px)', 'tv and (color:{a}) and (orientation:portrait)',
    'all and (min-resolution:{a}dpi)', 'print and (color:#{a}{b}{a})',
]


def run_query(qi):
    cssutils = common.setup_lifted()
    from sx.core import eng
    from sx.symstr import SymStr
    from sx import symre

    def fn():
        e = eng()
        shape = QUERY_SHAPES[qi]
        a = SymStr([e.fresh_int('a', 49, 57)])
        b = SymStr([e.fresh_int('b', 49, 57)])
        parts = []
        for chunk in shape.replace('{a}', '\x00a\x00').replace('{b}', '\x00b\x00').split('\x00'):
            parts.append(a if chunk == 'a' else b if chunk == 'b' else chunk)
        text = symre._join(parts, False)
        inputs = {'query': text, 'shape': qi}
        common.set_inputs(inputs)
        info = {'in': inputs, 'tags': ['query']}
        cssutils.log.raiseExceptions = True
        try:
            q = cssutils.stylesheets.MediaQuery(text)
            out = q.mediaText
            q2 = cssutils.stylesheets.MediaQuery(out)
            out2 = q2.mediaText
        except Exception as ex:
            info['note'] = 'raised %s: %s' % (type(ex).__name__, str(ex)[:100])
            return False, info
        from sx.core import sym_and
        # every feature and value in order: compare with white space removed
        def squeeze(s):
            return s.replace(' ', '')
        return sym_and(squeeze(out) == squeeze(text), out2 == out), info

    return common.explore(fn, 'query(%d)' % qi)


def run_malformed():
    cssutils = common.setup_lifted()
    import xml.dom
    from sx.core import fresh_int

    def fn():
        bad = ['tv and', 'tv and (', '(min-width)x', 'tv print', 'and', 'tv and ()x']
        i = fresh_int('bad', 0, len(bad) - 1)
        pos = fresh_int('pos', 0, 2)
        inputs = {'bad': i, 'pos': pos, 'malformed': True}
        common.set_inputs(inputs)
        info = {'in': inputs, 'tags': ['malformed']}
        items = ['tv', 'print']
        items.insert(int(pos), bad[int(i)])
        cssutils.log.raiseExceptions = False
        ml = cssutils.stylesheets.MediaList('screen')
        ml.mediaText = ', '.join(items)
        if [_mq(q).mediaText for q in ml] != ['screen'] or ml.mediaText != 'screen':
            info['note'] = 'list %r with a malformed member was (partly) accepted: %r' % (items, ml.mediaText)
            return False, info
        return True, info

    return common.explore(fn, 'malformed')


def jobs(tier):
    out = []
    K = 2 if tier == 'quick' else 3
    for owner in OWNERS:
        for op in OPS:
            for k in range(0, K + 1):
                out.append(('harness.c17', 'run_step', dict(owner=owner, op=op, k=k, comment=False)))
            out.append(('harness.c17', 'run_step', dict(owner=owner, op=op, k=2, comment=True)))
    for qi in range(len(QUERY_SHAPES)):
        out.append(('harness.c17', 'run_query', dict(qi=qi)))
    out.append(('harness.c17', 'run_malformed', {}))
    return out


def main(tier):
    rep = common.Report(PROP, tier)
    results = common.run_jobs(jobs(tier))
    rep.add_results(results)
    cases = []
    for r in results:
        cases.extend(r['cex'])
    rep.handle_counterexamples(cases)
    K = 2 if tier == 'quick' else 3
    rep.bounds = {'pre-state': '<= %d items from %r, simple types in symbolic letter case, optional leading comment' % (K, ITEMS),
                  'operation': '%r with arguments %r' % (OPS, ARGS), 'owners': OWNERS,
                  'queries': '%d query shapes with symbolic digits' % len(QUERY_SHAPES)}
    rep.assumptions = ['reference model harness/c17.py Model (ordered set keyed by normalised query text, "all" absorbing)',
                       'item choice is finite (leverage ~ 1); letter case and digits are solver-quantified']
    rep.outside = ['lists longer than %d' % K, 'media types outside the menu']
    rep.witness_required = ['ok', 'rejected', 'query', 'malformed']
    return rep.finish()


# ---------------------------------------------------------------------- replay (unlifted)

def replay(case):
    import cssutils
    import xml.dom
    cssutils.log.setLevel(60)
    inp = case['inputs']
    if inp.get('malformed'):
        bad = ['tv and', 'tv and (', '(min-width)x', 'tv print', 'and', 'tv and ()x']
        items = ['tv', 'print']
        items.insert(inp['pos'], bad[inp['bad']])
        cssutils.log.raiseExceptions = False
        ml = cssutils.stylesheets.MediaList('screen')
        ml.mediaText = ', '.join(items)
        if ml.mediaText == 'screen':
            return {'reproduced': False, 'detail': 'malformed list rejected as a whole'}
        return {'reproduced': True, 'detail': 'mediaText = %r was (partly) accepted: %r' % (', '.join(items), ml.mediaText),
                'fields': {'symptom': 'malformed-accepted', 'bad': bad[inp['bad']]}}
    if 'query' in inp:
        cssutils.log.raiseExceptions = True
        text = inp['query']
        try:
            out = cssutils.stylesheets.MediaQuery(text).mediaText
            out2 = cssutils.stylesheets.MediaQuery(out).mediaText
        except Exception as e:
            return {'reproduced': True, 'detail': 'MediaQuery(%r) raised %r' % (text, e),
                    'fields': {'symptom': 'query-raises', 'shape': inp['shape']}}
        if out.replace(' ', '') == text.replace(' ', '') and out == out2:
            return {'reproduced': False, 'detail': 'query survives'}
        return {'reproduced': True, 'detail': 'query %r serialises as %r, then %r' % (text, out, out2),
                'fields': {'symptom': 'query-changed', 'shape': inp['shape']}}
    chosen = [ITEMS[i] for i in inp['items']]
    spelled = inp['spelled']
    argtext, argsp = ARGS[inp['arg']], inp['arg_spelled']
    op, owner, pos = inp['op'], inp['owner'], inp['pos']
    text = ('/*c*/ ' if inp['comment'] else '') + ', '.join(spelled)
    cssutils.log.raiseExceptions = True
    try:
        ml, rule = _build(cssutils, owner, text if chosen else None)
    except xml.dom.DOMException:
        return {'reproduced': False, 'detail': 'pre-state rejected'}
    model = Model(chosen if (chosen or ml.length == 0) else ['all'])
    d = compare_with_model(cssutils, ml, model)
    if d:
        return {'reproduced': True, 'detail': '%s list from %r: %s' % (owner, text, d),
                'fields': {'symptom': 'prestate', 'comment': inp['comment'], 'what': d.split(' ')[0],
                           'dup_type_with_features': len({Model.mtype(c) for c in chosen}) < len({Model.key(c) for c in chosen})}}
    try:
        if op == 'append':
            want = model.append(argtext) if _valid_query(argtext) else 'rejected'
            ml.appendMedium(argsp)
        elif op == 'delete':
            mt = Model.mtype(argtext) or argtext
            want = model.delete(mt) if _valid_query(argtext) and ' ' not in argtext.strip() else 'rejected'
            ml.deleteMedium(argsp)
        elif op == 'setitem':
            if pos >= len(model.items) or inp['comment']:
                return {'reproduced': False, 'detail': 'index outside the list'}
            want = 'ok' if _valid_query(argtext) else 'rejected'
            if want == 'ok':
                model.items[pos] = argtext
            ml[pos] = argsp
        else:
            want = 'ok' if _valid_query(argtext) else 'rejected'
            if want == 'ok':
                model = Model([argtext])
            ml.mediaText = argsp
        got = 'ok'
    except xml.dom.DOMException:
        got = 'rejected'
    except Exception as e:
        return {'reproduced': True, 'detail': 'list %r; %s(%r) raised %r' % (text, op, argsp, e),
                'fields': {'symptom': 'raises', 'op': op, 'exc': type(e).__name__, 'comment': inp['comment']}}
    if op in ('append', 'setitem') and got == 'ok' and want == 'rejected' and not _valid_query(argtext):
        got = 'rejected'
    if got != want:
        return {'reproduced': True, 'detail': 'list %r; %s(%r): %s, the model says %s' % (text, op, argsp, got, want),
                'fields': {'symptom': 'accept-reject', 'op': op, 'arg': argtext, 'got': got, 'comment': inp['comment']}}
    if op == 'setitem' and got == 'ok':
        d = self_consistent(cssutils, ml)
    else:
        d = compare_with_model(cssutils, ml, model)
    if not d:
        return {'reproduced': False, 'detail': 'agrees with the model'}
    return {'reproduced': True, 'detail': '%s list %r; %s(%r) -> %s: %s' % (owner, text, op, argsp, got, d),
            'fields': {'symptom': 'after-op', 'op': op, 'arg': argtext, 'comment': inp['comment'], 'what': d.split(' ')[0],
                       'arg_has_features': '(' in argtext,
                       'prestate_has_features': any('(' in c for c in chosen)}}
