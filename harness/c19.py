"""C19 - URL enumeration/replacement exact; flattening @imports preserves meaning.

urls     One sheet with url() values at every nesting level (style rule, @media, @page, margin box, @font-face) and two
         @import rules; one URL position at a time is written with a hole filled by solver variables over all of
         Unicode (reduced alphabet).  If the text parses to the expected shape:
           list(getUrls(sheet)) == imports, then the url() values in document order (walked by the harness), once each;
           replaceUrls(sheet, f) calls f exactly once per URL, afterwards getUrls gives f(u) in the same order and the
           sheet is otherwise unchanged; replaceUrls with the identity leaves cssText unchanged (symbolic equality).
flatten  Import trees over a virtual file system chosen by solver variables (finite menus): location of the top sheet,
         href form on every edge (sibling, child directory, parent directory, dot segments, root-relative, absolute,
         scheme-relative), media on every edge, missing targets, targets holding rules that cannot be wrapped, url()
         forms inside every sheet, depth <= 2 (3 thorough).  cssutils.resolveImports(top) must list the style rules of
         all reachable sheets in cascade order, wrap each group in the media of its @import (or keep the @import when the
         target is missing or wrapping is impossible), fetch every target once, and every url() in the result must resolve
         (urljoin from the top sheet) to what it resolved to from its own sheet.
"""
from . import common, projection

PROP = 'C19'
HOLE = '\xa7'

# position name -> sheet text with one hole
URL_TEXTS = {
    'import-str': '@import "i\xa7.css";@import url(j.css) tv;a{b:url(u1.png) c url("u2.png")}@media tv{d{e:url(u3.png)}}'
                  '@page{f:url(u4.png);@top-left{g:url(u5.png)}}@font-face{src:url(u6.png)}',
    'import-url': '@import "i.css";@import url(j\xa7.css) tv;a{b:url(u1.png) c url("u2.png")}@media tv{d{e:url(u3.png)}}'
                  '@page{f:url(u4.png);@top-left{g:url(u5.png)}}@font-face{src:url(u6.png)}',
    'bare': '@import "i.css";@import url(j.css) tv;a{b:url(u1\xa7.png) c url("u2.png")}@media tv{d{e:url(u3.png)}}'
            '@page{f:url(u4.png);@top-left{g:url(u5.png)}}@font-face{src:url(u6.png)}',
    'dq': '@import "i.css";@import url(j.css) tv;a{b:url(u1.png) c url("u2\xa7.png")}@media tv{d{e:url(u3.png)}}'
          '@page{f:url(u4.png);@top-left{g:url(u5.png)}}@font-face{src:url(u6.png)}',
    'sq-media': "@import \"i.css\";@import url(j.css) tv;a{b:url(u1.png) c url(\"u2.png\")}@media tv{d{e:url('u3\xa7.png')}}"
                '@page{f:url(u4.png);@top-left{g:url(u5.png)}}@font-face{src:url(u6.png)}',
    'page': '@import "i.css";@import url(j.css) tv;a{b:url(u1.png) c url("u2.png")}@media tv{d{e:url(u3.png)}}'
            '@page{f:url(u4\xa7.png);@top-left{g:url(u5.png)}}@font-face{src:url(u6.png)}',
    'margin': '@import "i.css";@import url(j.css) tv;a{b:url(u1.png) c url("u2.png")}@media tv{d{e:url(u3.png)}}'
              '@page{f:url(u4.png);@top-left{g:url("u5\xa7.png")}}@font-face{src:url(u6.png)}',
    'fontface': '@import "i.css";@import url(j.css) tv;a{b:url(u1.png) c url("u2.png")}@media tv{d{e:url(u3.png)}}'
                '@page{f:url(u4.png);@top-left{g:url(u5.png)}}@font-face{src:url(u6\xa7.png) format("x")}',
    'whole-bare': '@import "i.css";@import url(j.css) tv;a{b:url(\xa7) c url("u2.png")}@media tv{d{e:url(u3.png)}}'
                  '@page{f:url(u4.png);@top-left{g:url(u5.png)}}@font-face{src:url(u6.png)}',
    'whole-dq': '@import "i.css";@import url(j.css) tv;a{b:url(u1.png) c url("\xa7")}@media tv{d{e:url(u3.png)}}'
                '@page{f:url(u4.png);@top-left{g:url(u5.png)}}@font-face{src:url(u6.png)}',
}
POSITIONS = sorted(URL_TEXTS)


def walk_urls(sheet):
    """imports first, then every url() value in document order - the harness's own walk over the public DOM"""
    imports = [r.href for r in sheet.cssRules if r.type == r.IMPORT_RULE]
    values = []

    def decl(style):
        for p in style.getProperties(all=True):
            for v in p.propertyValue:
                if v.type == 'URI':
                    values.append(v)

    def rules(rs):
        for r in rs:
            tn = type(r).__name__
            if tn in ('CSSStyleRule', 'CSSFontFaceRule', 'MarginRule'):
                decl(r.style)
            elif tn == 'CSSPageRule':
                decl(r.style)
                rules(r.cssRules)
            elif tn == 'CSSMediaRule':
                rules(r.cssRules)
    rules(sheet.cssRules)
    return imports, values


def _mask_urls(p):
    """projection with URI item texts and import hrefs blanked"""
    if isinstance(p, tuple) and len(p) == 2 and p[0] == 'URI':
        return ('URI', '*')
    if isinstance(p, tuple) and p and p[0] == 'import':
        return ('import', '*') + tuple(_mask_urls(x) for x in p[2:])
    if isinstance(p, (list, tuple)):
        return type(p)(_mask_urls(x) for x in p)
    return p


def check_urls(cssutils, text):
    """returns (tag, None) or (tag, problem)"""
    parser = cssutils.CSSParser(validate=False, fetcher=lambda url: None)
    sheet = parser.parseString(text, href='')      # empty base: the import hrefs are looked up as written
    imports, values = walk_urls(sheet)
    if len(imports) != 2 or len(values) != 6 or len(sheet.cssRules) != 6:
        return 'other-shape', None
    expected = list(imports) + [v.uri for v in values]
    got = list(cssutils.getUrls(sheet))
    if len(got) != len(expected):
        return 'shape', 'getUrls yields %d URLs, the sheet holds %d: %r vs %r' % (len(got), len(expected), got, expected)
    for i, (g, e) in enumerate(zip(got, expected)):
        if not (g == e):
            return 'shape', 'getUrls()[%d] is %r, document order gives %r (all: %r vs %r)' % (i, g, e, got, expected)
    # identity replacement is a no-op
    before = sheet.cssText
    shape_before = _mask_urls(projection.sheet(sheet))
    cssutils.replaceUrls(sheet, lambda u: u)
    after = sheet.cssText
    if not (before == after):
        return 'shape', 'replaceUrls with the identity changed cssText: %r -> %r' % (before, after)
    # recording replacer
    calls = []

    def f(u):
        calls.append(u)
        return 'r/' + u
    cssutils.replaceUrls(sheet, f)
    if len(calls) != len(expected):
        return 'shape', 'replacer called %d times for %d URLs: %r' % (len(calls), len(expected), calls)
    for c, e in zip(calls, expected):
        if not (c == e):
            return 'shape', 'replacer called with %r, expected %r (calls %r)' % (c, e, calls)
    got2 = list(cssutils.getUrls(sheet))
    for g, e in zip(got2, expected):
        if not (g == 'r/' + e):
            return 'shape', 'after replacement getUrls gives %r, expected %r' % (g, 'r/' + e)
    if not projection.eq(_mask_urls(projection.sheet(sheet)), shape_before):
        return 'shape', 'replaceUrls changed something other than URLs: %s' % projection.diff(
            shape_before, _mask_urls(projection.sheet(sheet)))
    return 'shape', None


def run_urls(pos, n):
    cssutils = common.setup_lifted()
    import sys
    sys.setrecursionlimit(40000)        # the sheet text is long for the recursive regex matcher
    from sx.symstr import fresh_str, reduced_alphabet
    from sx.mask import Mask
    amask = reduced_alphabet().minus(Mask.rng(0xD800, 0xDFFF))
    template = URL_TEXTS[pos]

    def fn():
        s = fresh_str(n, mask=amask)
        pre, post = template.split(HOLE)
        text = pre + s + post
        inputs = {'pos': pos, 'text': text}
        common.set_inputs(inputs)
        info = {'in': inputs, 'tags': []}
        cssutils.log.raiseExceptions = False
        tag, problem = check_urls(cssutils, text)
        info['tags'].append(tag)
        if problem:
            info['note'] = problem
            return False, info
        return True, info

    return common.explore(fn, 'urls(%s,n=%d)' % (pos, n), path_timeout_s=120.0)


# ---------------------------------------------------------------------- flattening

TOPS = ['http://s/css/a.css', 'http://s/a.css', 'file:///t/css/sub/a.css']
# href forms for an edge; {n} is the target's unique name
HREFS = ['{n}.css', 'd/{n}.css', '../{n}.css', './d/../{n}.css', '/root/{n}.css', 'http://o/x/{n}.css', '//h2/y/{n}.css',
         'd/e/../{n}.css', '/{n}.css']
MEDIA = ['', 'tv', 'print, tv']
# url() forms inside a sheet; {n} unique
URLS = ['{n}.png', 'img/{n}.png', '../{n}.png', '/abs/{n}.png', 'http://p/{n}.png', '//q/{n}.png', './{n}.png?x=1#f',
        '../../{n}.png', 'a%20{n}.png', 'dir{n}/']
KINDS = ['plain', 'missing', 'unwrappable-page', 'unwrappable-namespace', 'with-media-rule']


def build_tree(choice, depth):
    """choice: dict of solver-chosen ints.  Returns (top href, files: {absolute url: text}, meta)"""
    from urllib.parse import urljoin
    top = TOPS[choice['top']]
    files = {}
    meta = {'sheets': {}, 'order': []}

    def make(name, href_abs, level):
        """text of sheet `name` located at href_abs"""
        parts = []
        children = []
        if level < depth:
            for k in range(2 if level == 0 else 1):
                cname = '%s%d' % (name, k)
                key = 'L%d_%s' % (level, cname)
                hform = HREFS[choice[key + '_href']].format(n=cname)
                media = MEDIA[choice[key + '_media']]
                kind = KINDS[choice[key + '_kind']]
                children.append((cname, hform, media, kind))
                parts.append('@import "%s"%s;' % (hform, ' ' + media if media else ''))
        u = URLS[choice['U_' + name] if ('U_' + name) in choice else 0].format(n=name)
        parts.append('.%s{background:url(%s)}' % (name, u))
        meta['sheets'][name] = {'href': href_abs, 'url': u, 'children': children}
        files[href_abs] = ''.join(parts)
        for cname, hform, media, kind in children:
            cabs = urljoin(href_abs, hform)
            if kind == 'missing':
                meta['sheets'][cname] = {'href': cabs, 'missing': True, 'children': []}
                continue
            make(cname, cabs, level + 1)
            if kind == 'unwrappable-page':
                files[cabs] += '@page{margin:0}'
            elif kind == 'unwrappable-namespace':
                files[cabs] = '@namespace n "u";' + files[cabs] if '@import' not in files[cabs] else files[cabs] + '@font-face{font-family:f}'
            elif kind == 'with-media-rule':
                files[cabs] += '@media print{.%sm{color:red}}' % cname
    make('s', top, 0)
    return top, files, meta


def expected_flat(meta, name='s', media_ctx=None):
    """cascade-ordered list of ('rule', class name, wrapping media or None) / ('import', href) the flat sheet must hold"""
    sh = meta['sheets'][name]
    out = []
    for cname, hform, media, kind in sh['children']:
        child = meta['sheets'][cname]
        if child.get('missing'):
            out.append(('import-kept', cname))
            continue
        wrap = media if media else None
        unwrappable = kind in ('unwrappable-page', 'unwrappable-namespace', 'with-media-rule')
        sub = expected_flat(meta, cname)
        if wrap and (unwrappable or any(x[0] != 'rule' or x[2] is not None for x in sub)):
            out.append(('import-kept', cname))
            continue
        for x in sub:
            if x[0] == 'rule':
                out.append(('rule', x[1], wrap if wrap else x[2]))
            else:
                out.append(x)
        if kind == 'with-media-rule' and not wrap:
            pass
    out.append(('rule', name, None))
    return out


def flat_shape(flat):
    """what the flat sheet lists: style rules by class name with their wrapping media, kept imports by target name"""
    out = []
    for r in flat.cssRules:
        tn = type(r).__name__
        if tn == 'CSSStyleRule':
            out.append(('rule', r.selectorText.lstrip('.'), None))
        elif tn == 'CSSMediaRule':
            for x in r.cssRules:
                if type(x).__name__ == 'CSSStyleRule':
                    out.append(('rule', x.selectorText.lstrip('.'), r.media.mediaText))
        elif tn == 'CSSImportRule':
            out.append(('import-kept', r.href.rsplit('/', 1)[-1].replace('.css', '')))
    return out


ASPECTS = ['fetch', 'url', 'order']


def check_flatten(cssutils, choice, depth, aspect):
    from urllib.parse import urljoin
    top, files, meta = build_tree(choice, depth)
    fetched = []

    def fetcher(url):
        fetched.append(url)
        if url in files:
            return None, files[url]
        return None
    cssutils.log.raiseExceptions = False
    parser = cssutils.CSSParser(validate=False, fetcher=fetcher)
    sheet = parser.parseString(files[top], href=top)
    flat = cssutils.resolveImports(sheet)
    # each target fetched once
    dup = sorted(set(u for u in fetched if fetched.count(u) > 1))
    if aspect == 'fetch':
        if not dup:
            return None
        return 'fetched more than once: %r (fetch log %r)' % (dup, fetched)
    # urls resolve as before
    origin = {}
    for name, sh in meta['sheets'].items():
        if 'url' in sh:
            origin[name] = urljoin(sh['href'], sh['url'])
    problems = []

    def visit(rules, kept_from=None):
        for r in rules:
            tn = type(r).__name__
            if tn == 'CSSStyleRule':
                name = r.selectorText.lstrip('.')
                if name not in origin:
                    continue
                for p in r.style.getProperties(all=True):
                    for v in p.propertyValue:
                        if v.type == 'URI':
                            now = urljoin(top, v.uri)
                            if now != origin[name]:
                                problems.append('url of sheet %s (%r, %r from %r) is %r in the flat sheet and resolves to %r'
                                                % (name, origin[name], meta['sheets'][name]['url'], meta['sheets'][name]['href'],
                                                   v.uri, now))
            elif tn == 'CSSMediaRule':
                visit(r.cssRules)
    visit(flat.cssRules)
    if aspect == 'url' and problems:
        return problems[0]
    # kept @import rules must still point at their target
    for r in flat.cssRules if aspect == 'url' else ():
        if type(r).__name__ == 'CSSImportRule':
            name = r.href.rsplit('/', 1)[-1].replace('.css', '')
            want = meta['sheets'].get(name, {}).get('href')
            if want and urljoin(top, r.href) != want:
                return 'kept @import %r resolves to %r from the flat sheet, its target is %r' % (r.href, urljoin(top, r.href), want)
    if aspect != 'order':
        return None
    # order and wrapping
    exp = expected_flat(meta)
    got = [x for x in flat_shape(flat) if not x[1].endswith('m')]
    if got != exp:
        return 'flat sheet lists %r, cascade order with media wrapping gives %r' % (got, exp)
    return None


def _only_kept_moved(cssutils, choice, depth):
    """the flat sheet differs from the expected one only in where the kept @import rules stand"""
    top, files, meta = build_tree(choice, depth)
    cssutils.log.raiseExceptions = False
    parser = cssutils.CSSParser(validate=False, fetcher=lambda url: (None, files[url]) if url in files else None)
    flat = cssutils.resolveImports(parser.parseString(files[top], href=top))
    exp = expected_flat(meta)
    got = [x for x in flat_shape(flat) if not x[1].endswith('m')]
    strip = lambda xs: [x for x in xs if x[0] != 'import-kept']
    kept = lambda xs: sorted(x for x in xs if x[0] == 'import-kept')
    return strip(got) == strip(exp) and kept(got) == kept(exp) and got != exp


def choice_vars(depth, fresh_int, fixed):
    """create the solver variables for a tree of the given depth"""
    ch = {}

    def add(key, n):
        ch[key] = fixed[key] if key in fixed else fresh_int(key, 0, n - 1)

    add('top', len(TOPS))

    def make(name, level):
        if level < depth:
            for k in range(2 if level == 0 else 1):
                cname = '%s%d' % (name, k)
                key = 'L%d_%s' % (level, cname)
                add(key + '_href', len(HREFS))
                add(key + '_media', len(MEDIA))
                add(key + '_kind', len(KINDS))
                make(cname, level + 1)
        add('U_' + name, len(URLS))
    make('s', 0)
    return ch


def run_flatten(depth, top, href0, aspect, limit):
    """full=False: all choices pairwise-ish - only the first edge and every url form vary, the rest stay at 0"""
    cssutils = common.setup_lifted()
    from sx.core import fresh_int

    def fn():
        fixed = {'top': top, 'L0_s0_href': href0}
        ch = choice_vars(depth, fresh_int, fixed)
        inputs = dict(ch, depth=depth, aspect=aspect)
        common.set_inputs(inputs)
        if limit is not None:
            # at most `limit` choices away from the first menu entry besides the fixed ones
            from sx.core import eng
            import z3
            free = [v for k, v in ch.items() if k not in fixed]
            eng().assume(z3.Sum([z3.If(v.e != 0, 1, 0) for v in free]) <= limit)
        concrete = {k: int(v) for k, v in ch.items()}
        info = {'in': inputs, 'tags': ['flatten', 'aspect:' + aspect]}
        kinds = [KINDS[v] for k, v in concrete.items() if k.endswith('_kind')]
        info['tags'].extend('kind:' + k for k in set(kinds))
        problem = check_flatten(cssutils, concrete, depth, aspect)
        if problem:
            info['note'] = problem
            return False, info
        return True, info

    return common.explore(fn, 'flatten(depth=%d,top=%d,href0=%d,%s,limit=%s)' % (depth, top, href0, aspect, limit),
                          path_timeout_s=120.0, max_cex=60)


def jobs(tier):
    out = []
    nmax = 1 if tier == 'quick' else 2
    for pos in POSITIONS:
        for n in range(1, nmax + 1):
            out.append(('harness.c19', 'run_urls', dict(pos=pos, n=n)))
    for t in range(len(TOPS)):
        for h in range(len(HREFS)):
            for a in ASPECTS:
                out.append(('harness.c19', 'run_flatten', dict(depth=1, top=t, href0=h, aspect=a, limit=2 if tier == 'quick' else 3)))
                out.append(('harness.c19', 'run_flatten', dict(depth=2, top=t, href0=h, aspect=a, limit=1 if tier == 'quick' else 2)))
    return out


def main(tier):
    rep = common.Report(PROP, tier)
    results = common.run_jobs(jobs(tier), job_timeout_s=900 if tier == 'quick' else 4000)
    rep.add_results(results)
    cases = []
    for r in results:
        cases.extend(r['cex'])
    rep.handle_counterexamples(cases)
    rep.bounds = {'urls': 'one fixed sheet shape with 2 @import and 6 url() values; %d hole positions, hole of length %s over all of '
                          'Unicode (reduced alphabet)' % (len(POSITIONS), '1' if tier == 'quick' else '<= 2'),
                  'flatten': 'import trees of depth <= 2 (two imports in the top sheet, one below) over tops %r, href forms %r, media '
                             '%r, target kinds %r, url forms %r; top sheet and first edge in full, of the other choices at most %s (depth 1) / %s (depth 2) '
                             'differ from the first menu entry' % (TOPS, HREFS, MEDIA, KINDS, URLS, 2 if tier == 'quick' else 3, 1 if tier == 'quick' else 2)}
    rep.assumptions = ['urllib.parse.urljoin is the resolving oracle', 'flatten jobs are finite-choice (solver-driven enumeration)',
                       'the url jobs quantify the hole characters with the solver']
    rep.outside = ['csscombine (script wrapper): covered for its state handling by C12 only', 'minified output and target encodings',
                   'trees deeper than 2, more than two imports per sheet']
    rep.witness_required = ['shape', 'flatten', 'aspect:fetch', 'aspect:url', 'aspect:order', 'kind:plain', 'kind:missing', 'kind:unwrappable-page', 'kind:with-media-rule']
    return rep.finish()


# ---------------------------------------------------------------------- replay (unlifted)

def replay(case):
    import cssutils
    cssutils.log.setLevel(60)
    inp = case['inputs']
    if 'pos' in inp:
        cssutils.log.raiseExceptions = False
        tag, problem = check_urls(cssutils, inp['text'])
        if not problem:
            return {'reproduced': False, 'detail': 'URLs enumerated and replaced exactly (%s)' % tag}
        kind = ('order' if 'document order' in problem else 'identity' if 'identity' in problem else
                'calls' if 'replacer called' in problem else 'other')
        return {'reproduced': True, 'detail': 'sheet %r: %s' % (inp['text'], problem),
                'fields': {'symptom': 'urls', 'kind': kind, 'pos': inp['pos']}}
    depth = inp['depth']
    choice = {k: v for k, v in inp.items() if k not in ('depth', 'aspect')}
    problem = check_flatten(cssutils, choice, depth, inp['aspect'])
    if not problem:
        return {'reproduced': False, 'detail': 'flat sheet as expected'}
    top, files, meta = build_tree(choice, depth)
    kind = ('url' if 'resolves to' in problem and 'url of sheet' in problem else 'import-target' if 'kept @import' in problem
            else 'fetch' if 'fetched more' in problem else 'order')
    kinds = sorted(set(KINDS[v] for k, v in choice.items() if k.endswith('_kind')))
    medias = sorted(set(MEDIA[v] for k, v in choice.items() if k.endswith('_media')))
    return {'reproduced': True, 'detail': 'files %r: %s' % (files, problem),
            'fields': {'symptom': 'flatten', 'kind': kind, 'missing_target': 'missing' in kinds,
                       'import_kept_after_flattened': kind == 'order' and _only_kept_moved(cssutils, choice, depth),
                       'href_forms': sorted(set(HREFS[v] for k, v in choice.items() if k.endswith('_href'))),
                       'url_forms': sorted(set(URLS[v] for k, v in choice.items() if k.startswith('U_')))}}
