"""C09 - A stylesheet stays structurally valid under any sequence of DOM edits.

Inductive step from an arbitrary valid state (DESIGN 3 C09): the sheet's rule list holds n <= N
rule objects whose *kind codes are solver variables*, assumed (a z3 formula) to satisfy the
invariant I exactly as the property states it; one operation with symbolic arguments is executed
on the real CSSStyleSheet code; I must hold afterwards whether the call returned or raised a DOM
exception, parent links must mirror containment, and a rejected call must leave the list as it
was.  Counterexamples are replayed from an empty sheet through public calls with real rules.
"""
import json
import os
import sys

from . import common

PROP = 'C09'

KINDS = {'UNKNOWN': 0, 'STYLE': 1, 'CHARSET': 2, 'IMPORT': 3, 'MEDIA': 4, 'FONT_FACE': 5,
         'PAGE': 6, 'NAMESPACE': 10, 'COMMENT': 1001, 'VARIABLES': 1008}
KNAMES = {v: k for k, v in KINDS.items()}
BODY = (1, 4, 5, 6)

OPS = ['insert', 'add', 'delete', 'delete_rule', 'set_encoding', 'ns_set', 'ns_del']


def invariant(kinds):
    """I over a list of kind codes (ints or SymInts) -> bool / SymBool"""
    from sx.core import sym_and, sym_or, sym_not
    conds = []
    n = len(kinds)
    for j in range(1, n):
        conds.append(kinds[j] != 2)
    for i in range(n):
        for j in range(i + 1, n):
            ki, kj = kinds[i], kinds[j]
            conds.append(sym_not(sym_and(ki == 10, kj == 3)))
            body_i = sym_or(*[ki == b for b in BODY])
            conds.append(sym_not(sym_and(body_i, sym_or(kj == 3, kj == 10))))
    return sym_and(*conds)


def invariant_concrete(kinds):
    for j in range(1, len(kinds)):
        if kinds[j] == 2:
            return False
    for i in range(len(kinds)):
        for j in range(i + 1, len(kinds)):
            if kinds[i] == 10 and kinds[j] == 3:
                return False
            if kinds[i] in BODY and kinds[j] in (3, 10):
                return False
    return True


def _make_stub_class(cssutils):
    class _SelStub:
        def _getUsedUris(self):
            return set()

    class StubRule(cssutils.css.CSSRule):
        """minimal rule whose type is a solver term"""
        wellformed = True
        hrefFound = True
        styleSheet = None
        valid = True

        def __init__(self, kind, tag, prefix=None, uri=None):
            super().__init__()
            self._kind = kind
            self.tag = tag
            self.prefix = prefix
            self.namespaceURI = uri
            self.encoding = 'utf-8'
            self.variables = {}
            self.selectorList = _SelStub()

        type = property(lambda self: self._kind)

        def __iter__(self):
            return iter(())

        cssText = property(lambda self: '')
    return StubRule


def run_step(n, op, path_timeout_s=60.0):
    cssutils = common.setup_lifted()
    import xml.dom
    import z3
    from sx.core import fresh_int, eng, SymInt, sym_and, sym_or
    StubRule = _make_stub_class(cssutils)
    cssutils.log.raiseExceptions = True
    kind_values = sorted(KINDS.values())

    def fresh_kind(name):
        k = fresh_int(name)
        eng().assume(z3.Or(*[k.e == v for v in kind_values]))
        return k

    def fn():
        sheet = cssutils.css.CSSStyleSheet()
        kinds = [fresh_kind('k%d' % i) for i in range(n)]
        eng().assume(invariant(kinds))
        rules = []
        for i, k in enumerate(kinds):
            r = StubRule(k, 'r%d' % i, prefix='p%d' % i, uri='u%d' % i)
            r._parentStyleSheet = sheet
            list.append(sheet._cssRules, r)
            rules.append(r)
        before = list(sheet._cssRules)
        info = {'in': {'n': n, 'op': op, 'kinds': list(kinds)}, 'tags': ['op:' + op]}
        new = None
        removed = None
        try:
            if op in ('insert', 'add'):
                nk = fresh_kind('newkind')
                pi = fresh_int('pi', 0, 1)
                ui = fresh_int('ui', 0, 1)
                new = StubRule(nk, 'new')
                # namespace attributes are finite choices, realised only if the code reads them
                new.__class__ = type('StubRuleNS', (StubRule,), {
                    'prefix': property(lambda self: ['p0', 'q'][int(pi)], lambda self, v: None),
                    'namespaceURI': property(lambda self: ['u0', 'w'][int(ui)], lambda self, v: None),
                })
                info['in'].update(newkind=nk, prefix_choice=pi, uri_choice=ui)
                if op == 'insert':
                    idx = fresh_int('index', -1, n + 1)
                    info['in']['index'] = idx
                    sheet.insertRule(new, idx)
                else:
                    sheet.add(new)
            elif op == 'delete':
                idx = fresh_int('index', -n - 1, n)
                info['in']['index'] = idx
                pre = list(sheet._cssRules)
                sheet.deleteRule(idx)
                removed = [r for r in pre if all(r is not x for x in sheet._cssRules)]
            elif op == 'delete_rule':
                which = fresh_int('which', 0, n)   # n = a rule that is not in the sheet
                info['in']['which'] = which
                w = int(which)
                target = rules[w] if w < n else StubRule(1, 'foreign')
                sheet.deleteRule(target)
                removed = [target]
            elif op == 'set_encoding':
                enc = fresh_int('enc', 0, 2)
                info['in']['enc'] = enc
                pre = list(sheet._cssRules)
                sheet.encoding = [None, 'ascii', 'utf-8'][int(enc)]
                removed = [r for r in pre if all(r is not x for x in sheet._cssRules)]
            elif op == 'ns_set':
                pi = fresh_int('pi', 0, 1)
                ui = fresh_int('ui', 0, 1)
                info['in'].update(prefix_choice=pi, uri_choice=ui)
                sheet.namespaces[['p0', 'q'][int(pi)]] = ['u0', 'w'][int(ui)]
            elif op == 'ns_del':
                pi = fresh_int('pi', 0, 1)
                info['in'].update(prefix_choice=pi)
                pre = list(sheet._cssRules)
                del sheet.namespaces[['p0', 'q'][int(pi)]]
                removed = [r for r in pre if all(r is not x for x in sheet._cssRules)]
            outcome = 'accepted'
        except xml.dom.DOMException as e:
            outcome = 'rejected:' + type(e).__name__
        except Exception as e:
            info['note'] = 'non-DOM exception %s: %s' % (type(e).__name__, e)
            info['tags'].append('crash')
            return False, info
        info['tags'].append(outcome.split(':')[0])
        after = list(sheet._cssRules)
        info['note'] = {'outcome': outcome,
                        'after': [getattr(r, 'tag', type(r).__name__) for r in after]}
        # parent links mirror containment
        for r in after:
            if r.parentStyleSheet is not sheet:
                info['note']['problem'] = 'rule in list does not name the sheet as parent'
                return False, info
        if outcome == 'accepted' and removed:
            for r in removed:
                if r.parentStyleSheet is not None:
                    info['note']['problem'] = 'removed rule still names a parent'
                    return False, info
        if outcome != 'accepted':
            if len(after) != len(before) or any(a is not b for a, b in zip(after, before)):
                info['note']['problem'] = 'rejected call changed the rule list'
                return False, info
            if new is not None and new.parentStyleSheet is not None:
                info['note']['problem'] = 'rejected rule names the sheet as parent'
                return False, info
        post = invariant([r.type for r in after])
        if post is not True:
            info['note']['problem'] = 'ordering invariant broken'
        return post, info

    return common.explore(fn, 'step(n=%d,op=%s)' % (n, op), path_timeout_s=path_timeout_s)


def jobs(tier):
    N = 4 if tier == 'quick' else 6
    out = []
    for n in range(0, N + 1):
        for op in OPS:
            out.append(('harness.c09', 'run_step', dict(n=n, op=op)))
    out.sort(key=lambda j: -j[2]['n'])
    return out


def main(tier):
    rep = common.Report(PROP, tier)
    results = common.run_jobs(jobs(tier))
    rep.add_results(results)
    cases = []
    for r in results:
        cases.extend(r['cex'])
        for t in r['timeouts']:
            rep.harness_errors.append('path timeout in %s: %s' % (r['job'], t))
    rep.handle_counterexamples(cases)
    N = 4 if tier == 'quick' else 6
    rep.bounds = {'pre_state_rules': '0..%d rules, kind codes symbolic over the ten rule kinds, '
                                     'assumed to satisfy the invariant' % N,
                  'operations': OPS,
                  'arguments': 'index symbolic over -1..n+1 (insert) / -n-1..n (delete); new rule kind '
                               'symbolic; namespace prefix/URI finite choices {p0,q} x {u0,w}'}
    rep.assumptions = [
        'pre-state rules are minimal CSSRule subclasses whose type is a z3 term (stub fidelity: the '
        'attributes read by the sheet code - type, wellformed, prefix, namespaceURI, encoding, '
        'hrefFound, styleSheet, variables, selectorList._getUsedUris - mirror the real classes)',
        'pre-state namespace rules have pairwise distinct prefixes and URIs',
        'invariant I: at most one @charset, only at index 0; @import before @namespace before '
        'style/media/page/font-face; comments, unknown rules and @variables unordered',
    ]
    rep.stubs = ['logging: StubLog', 'rule objects: StubRule (see assumptions)']
    rep.outside = ['rule lists longer than %d' % N, 'text-based edits (cssText setters) - covered by '
                   'the parse-level harness', 'nested @media/@page lists (second harness)']
    rep.witness_required = ['accepted', 'rejected'] + ['op:' + o for o in OPS]
    return rep.finish()


# ---------------------------------------------------------------------- replay (unlifted)

def _real_rule(cssutils, kind, i, prefix=None, uri=None):
    css = cssutils.css
    if kind == 0:
        return css.CSSUnknownRule('@x%d;' % i)
    if kind == 1:
        return css.CSSStyleRule(selectorText='a%d' % i)
    if kind == 2:
        return css.CSSCharsetRule(encoding='utf-8')
    if kind == 3:
        r = css.CSSImportRule(href='i%d.css' % i)
        return r
    if kind == 4:
        return css.CSSMediaRule(mediaText='print')
    if kind == 5:
        return css.CSSFontFaceRule()
    if kind == 6:
        return css.CSSPageRule()
    if kind == 10:
        return css.CSSNamespaceRule(namespaceURI=uri or 'u%d' % i, prefix=prefix or 'p%d' % i)
    if kind == 1001:
        return css.CSSComment('/*c%d*/' % i)
    if kind == 1008:
        return css.CSSVariablesRule()
    raise ValueError(kind)


def _build(cssutils, hist):
    sheet = cssutils.css.CSSStyleSheet()
    sheet._fetcher = lambda url: None
    for n, (op, k, i) in enumerate(hist):
        if op == 'insert':
            sheet.insertRule(_real_rule(cssutils, k, 100 + n), i)
        elif op == 'add':
            sheet.add(_real_rule(cssutils, k, 100 + n))
        else:
            sheet.deleteRule(i)
    return sheet


_REACH = {}


def _find_history(cssutils, kinds):
    """a sequence of public edits from the empty sheet that produces exactly this list of rule
    kinds (breadth-first search over insertRule / add / deleteRule), or None"""
    import xml.dom
    target = tuple(kinds)
    # fast path: plain insertion in order
    try:
        hist = [('insert', k, i) for i, k in enumerate(kinds)]
        if tuple(r.type for r in _build(cssutils, hist).cssRules) == target:
            return hist
    except xml.dom.DOMException:
        pass
    alphabet = sorted(set(kinds) | {1001})
    maxlen = len(kinds) + 1
    key = (tuple(alphabet), maxlen)
    if key not in _REACH:
        seen = {(): []}
        frontier = [()]
        budget = 60000
        while frontier and budget > 0:
            nxt = []
            for st in frontier:
                h = seen[st]
                moves = [('add', k, None) for k in alphabet]
                moves += [('insert', k, i) for k in alphabet for i in range(len(st) + 1)]
                moves += [('delete', None, i) for i in range(len(st))]
                for mv in moves:
                    if mv[0] != 'delete' and len(st) >= maxlen:
                        continue
                    budget -= 1
                    try:
                        sh = _build(cssutils, h + [mv])
                    except xml.dom.DOMException:
                        continue
                    ns = tuple(r.type for r in sh.cssRules)
                    if ns not in seen:
                        seen[ns] = h + [mv]
                        nxt.append(ns)
            frontier = nxt
        _REACH[key] = seen
    return _REACH[key].get(target)


def replay(case):
    import xml.dom
    import cssutils
    cssutils.log.setLevel(60)
    cssutils.log.raiseExceptions = True
    cssutils.ser.prefs.keepEmptyRules = True
    inp = case['inputs']
    n, op, kinds = inp['n'], inp['op'], inp['kinds']
    hist = _find_history(cssutils, kinds)
    if hist is None:
        return {'reproduced': False, 'detail': 'pre-state %s not reachable from the empty sheet by '
                'insertRule/add/deleteRule within the search bound' % [KNAMES[k] for k in kinds],
                'fields': {'unreachable': True}}
    sheet = _build(cssutils, hist)
    rules = list(sheet.cssRules)
    before = list(sheet.cssRules)
    new = None
    desc = ''
    outcome = 'accepted'
    try:
        if op in ('insert', 'add'):
            new = _real_rule(cssutils, inp['newkind'], 99, ['p0', 'q'][inp['prefix_choice']],
                             ['u0', 'w'][inp['uri_choice']])
            if op == 'insert':
                desc = 'insertRule(%s, %d)' % (KNAMES[inp['newkind']], inp['index'])
                sheet.insertRule(new, inp['index'])
            else:
                desc = 'add(%s)' % KNAMES[inp['newkind']]
                sheet.add(new)
        elif op == 'delete':
            desc = 'deleteRule(%d)' % inp['index']
            sheet.deleteRule(inp['index'])
        elif op == 'delete_rule':
            w = inp['which']
            desc = 'deleteRule(rule %d)' % w
            sheet.deleteRule(rules[w] if w < n else cssutils.css.CSSStyleRule(selectorText='zz'))
        elif op == 'set_encoding':
            v = [None, 'ascii', 'utf-8'][inp['enc']]
            desc = 'encoding = %r' % v
            sheet.encoding = v
        elif op == 'ns_set':
            desc = 'namespaces[%r] = %r' % (['p0', 'q'][inp['prefix_choice']], ['u0', 'w'][inp['uri_choice']])
            sheet.namespaces[['p0', 'q'][inp['prefix_choice']]] = ['u0', 'w'][inp['uri_choice']]
        elif op == 'ns_del':
            desc = 'del namespaces[%r]' % ['p0', 'q'][inp['prefix_choice']]
            del sheet.namespaces[['p0', 'q'][inp['prefix_choice']]]
    except xml.dom.DOMException as e:
        outcome = 'rejected:' + type(e).__name__
    except Exception as e:
        return {'reproduced': True,
                'detail': 'pre-state %s; %s raised non-DOM %r' % ([KNAMES[k] for k in kinds], desc, e),
                'fields': {'symptom': 'crash', 'op': op, 'exc': type(e).__name__}}
    after = list(sheet.cssRules)
    akinds = [r.type for r in after]
    problems = []
    if not invariant_concrete(akinds):
        problems.append('order')
    for r in after:
        if r.parentStyleSheet is not sheet:
            problems.append('parent-missing')
            break
    if outcome == 'accepted':
        for r in before:
            if all(r is not x for x in after) and r.parentStyleSheet is not None:
                problems.append('orphan-has-parent')
                break
    else:
        if len(after) != len(before) or any(a is not b for a, b in zip(after, before)):
            problems.append('rejected-changed-list')
        if new is not None and new.parentStyleSheet is not None:
            problems.append('rejected-rule-has-parent')
    if not problems:
        return {'reproduced': False, 'detail': 'pre %s; %s -> %s; after %s: no problem'
                % ([KNAMES[k] for k in kinds], desc, outcome, [KNAMES[k] for k in akinds])}
    # consequence: does serialise+reparse lose a rule?
    lost = None
    try:
        txt = sheet.cssText
        cssutils.log.raiseExceptions = False
        re_kinds = [r.type for r in cssutils.parseString(txt, validate=False).cssRules]
        lost = len(re_kinds) < len(akinds)
    except Exception:
        pass
    nk = KNAMES.get(inp.get('newkind')) if 'newkind' in inp else None
    first_bad = None
    if 'order' in problems and nk is not None and new in after:
        i = after.index(new)
        first_bad = ','.join(sorted({KNAMES[k] for k in akinds[i + 1:] if k in (2, 3, 10)}))
    return {'reproduced': True,
            'detail': 'pre-state %s; %s -> %s; after %s; problems %s; reparse loses a rule: %s'
                      % ([KNAMES[k] for k in kinds], desc, outcome, [KNAMES[k] for k in akinds],
                         problems, lost),
            'fields': {'symptom': '+'.join(sorted(set(problems))), 'op': op, 'newkind': nk,
                       'outcome': outcome, 'placed_before': first_bad}}
