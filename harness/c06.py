"""C06 - Serializer preferences do exactly what they document, in every combination.

The preference object itself is symbolic: the boolean preferences are solver variables, the string
preferences are solver-driven choices realised when the serializer first reads them.  For each carrier
sheet the real sheet.cssText is explored over ALL assignments; the engine forks only on preferences the
serializer actually consults for that DOM.  Per path (the consulted preferences are decided, the others are
don't-cares covering all their values):
  (i)   serialisation does not raise, the output tokenises without INVALID and reparses;
  (ii)  normalised projection(reparse(output)) == expected(DOM, prefs), `expected` being an independent
        implementation of the documented content effects (comments, empty rules, unknown at-rules, unused
        namespace rules, effective-only properties, resolved variables; href format / literal names /
        hash shortening / leading zero are spelling-only and normalised away);
  (iii) with the layout preferences put back to their defaults (content preferences kept) the S-stripped
        token sequence is identical;
  (iv)  after useDefaults() the output is byte-identical to the default output;
  (v)   the minified preset as one more assignment.
"""
import re
from fractions import Fraction

from . import common, projection

PROP = 'C06'

BOOL_PREFS = ['defaultAtKeyword', 'defaultPropertyName', 'defaultPropertyPriority', 'indentClosingBrace',
              'keepAllProperties', 'keepComments', 'keepEmptyRules', 'keepUnknownAtRules',
              'keepUsedNamespaceRulesOnly', 'minimizeColorHash', 'normalizedVarNames', 'omitLastSemicolon',
              'omitLeadingZero', 'resolveVariables']
STR_PREFS = {
    'indent': ['    ', '', ' '], 'lineSeparator': ['\n', ''], 'listItemSpacer': [' ', ''],
    'paranthesisSpacer': [' ', ''], 'propertyNameSpacer': [' ', ''], 'selectorCombinatorSpacer': [' ', ''],
    'spacer': [' ', ''], 'importHrefFormat': [None, 'string', 'uri'],
}
LAYOUT = ['indent', 'lineSeparator', 'listItemSpacer', 'paranthesisSpacer', 'propertyNameSpacer',
          'selectorCombinatorSpacer', 'spacer', 'indentClosingBrace']

CARRIERS = [
    # kitchen sink
    '@charset "utf-8"; /*top*/ @import "i.css" tv; @import url(j.css); @namespace p "u"; @namespace q "unused";'
    '@variables { c: red } p|a, b > c { COLOR: var(c); color: #AABBCC !IMPORTANT; left: 0.50px; left: 1px; /*in*/ }'
    ' empty {} @media print { d { top: 00.5em } /*m*/ e {} } @x y { z } @page :first { margin: 0.5in; @top-left { w: 1 } }'
    ' @font-face { font-family: f; src: url(s) }',
    'a{b:c}',
    # comments inside compound selectors, next to combinators, in preludes and values
    '@import /*8*/ "x" /*9*/ tv; a/*1*/.b/*2*/:hover > c, d/*3*/[x] /*s*/ e{color:red/*4*/;/*5*/left:0} @media /*6*/ tv /*7*/{f/*i*/#g{h:i}}',
    '/*only*/',
    'a{} b{/*c*/} @media tv{}',
    '@namespace "d"; @namespace p "u"; a{x:1} p|b{y:2}',
    '@variables{v:1px} a{w:var(v); w:2px} @unknown;',
    'a{COLOR:#ffFFff;color:#123456;Color:#112233 !important}',
    '@import "x"; @import url("y") print;',
    '@page{margin:.5cm}@page :left{@bottom-right{content:"x"}}',
    '@media tv and (min-width:0.5em), print{a{b:+.50;c:-0.0}}',
]


def _num_canon(txt):
    """canonical spelling of numbers inside a value text: no leading zero before '.', hash colours expanded"""
    def num(m):
        s = m.group(0)
        sign = ''
        if s[0] in '+-':
            sign, s = s[0], s[1:]
        if '.' in s:
            ip, fp = s.split('.')
            ip = ip.lstrip('0')
            fp = fp.rstrip('0')
            s = (ip or '0') + ('.' + fp if fp else '')
        else:
            s = s.lstrip('0') or '0'
        if sign == '+' or (sign == '-' and s == '0'):
            sign = ''
        return sign + s
    txt = re.sub(r'(?<![#\w])[+-]?(?:\d*\.\d+|\d+)', num, txt)

    def hashc(m):
        h = m.group(1).lower()
        if len(h) == 3:
            h = ''.join(c * 2 for c in h)
        return '#' + h
    return re.sub(r'#([0-9a-fA-F]{6}|[0-9a-fA-F]{3})(?![0-9a-fA-F])', hashc, txt)


def norm_style(items):
    out = []
    for it in items:
        if it[0] == 'prop':
            _, name, literal, pv, prio = it
            out.append(('prop', name, [(t if t != 'ZERO' else 'NUMBER', _num_canon(v).lower()
                                        if t in ('HASH', 'DIMENSION', 'NUMBER', 'PERCENTAGE', 'ZERO', 'COLOR_VALUE', 'IDENT')
                                        else _num_canon(v)) for t, v in pv], prio))
        elif it[0] == 'comment':
            out.append(it)
        else:
            out.append(it)
    return out


def norm_rule(r):
    k = r[0]
    if k == 'style':
        return ('style', [s[1] for s in r[1]], norm_style(r[2]))
    if k == 'mediarule':
        return ('mediarule', _num_canon(r[1][1]), [norm_rule(x) for x in r[3]])
    if k == 'page':
        return ('page', r[1], norm_style(r[2]), [norm_rule(x) for x in r[3]])
    if k == 'margin':
        return ('margin', r[1], norm_style(r[2]))
    if k == 'fontface':
        return ('fontface', norm_style(r[1]))
    if k == 'import':
        return ('import', r[1], r[2][1], r[3])
    if k == 'unknown':
        return ('unknown', r[1], [(t, v) for t, v in r[2] if t != 'S'])
    if k == 'variables':
        return ('variables', sorted(r[1]))
    return r


def expected(proj_rules, prefs, variables, used_uris):
    """the documented content effect of the preferences on a (normalised) projection"""
    def style(items):
        out = []
        for it in items:
            if it[0] == 'comment':
                if prefs['keepComments']:
                    out.append(it)
                continue
            out.append(it)
        if not prefs['keepAllProperties']:
            # effective only: last !important entry of a name, else the last entry
            eff = {}
            for i, it in enumerate(out):
                if it[0] != 'prop':
                    continue
                name = it[1]
                cur = eff.get(name)
                if cur is None or it[3] == 'important' or out[cur][3] != 'important':
                    eff[name] = i
            out = [it for i, it in enumerate(out) if it[0] != 'prop' or eff[it[1]] == i]
        if prefs['resolveVariables']:
            res = []
            for it in out:
                if it[0] == 'prop':
                    pv = []
                    for t, v in it[2]:
                        m = re.fullmatch(r'var\(\s*([^) ]+)\s*\)', v)
                        if m and m.group(1).lower() in variables:
                            pv.extend(variables[m.group(1).lower()])
                        else:
                            pv.append((t, v))
                    it = ('prop', it[1], pv, it[3])
                res.append(it)
            out = res
        return out

    def has_content(items):
        return any(it[0] == 'prop' for it in items) or any(it[0] == 'comment' for it in items)

    def text(t):
        """selector / media text: without its comments when they are not kept"""
        if prefs['keepComments'] or not isinstance(t, str):
            return t
        return re.sub(r'\s+', ' ', re.sub(r'/\*.*?\*/', '', t, flags=re.S)).strip()

    def rules(rs, top):
        out = []
        for r in rs:
            k = r[0]
            if k == 'comment':
                if prefs['keepComments']:
                    out.append(r)
            elif k == 'unknown':
                if prefs['keepUnknownAtRules']:
                    out.append(r)
            elif k == 'namespace':
                if not prefs['keepUsedNamespaceRulesOnly'] or r[2] in used_uris:
                    out.append(r)
            elif k == 'variables':
                if not prefs['resolveVariables']:
                    out.append(r)
            elif k == 'style':
                st = style(r[2])
                if has_content(st) or prefs['keepEmptyRules']:
                    out.append(('style', [text(x) for x in r[1]], st))
            elif k == 'mediarule':
                inner = rules(r[2], False)
                if inner or prefs['keepEmptyRules']:
                    out.append(('mediarule', text(r[1]), inner))
            elif k == 'page':
                st = style(r[2])
                inner = [('margin', m[1], style(m[2])) for m in r[3]]
                inner = [m for m in inner if has_content(m[2]) or prefs['keepEmptyRules']]
                if has_content(st) or inner or prefs['keepEmptyRules']:
                    out.append(('page', r[1], st, inner))
            elif k == 'fontface':
                st = style(r[1])
                if has_content(st) or prefs['keepEmptyRules']:
                    out.append(('fontface', st))
            elif k == 'import':
                out.append(('import', r[1], text(r[2]), r[3]))
            else:
                out.append(r)
        return out
    return rules(proj_rules, True)


def _stripped_tokens(cssutils, text):
    from cssutils.tokenize2 import Tokenizer
    return [(t[0], t[1]) for t in Tokenizer().tokenize(text) if t[0] != 'S']


_REPARSE = {}


def reparsed(cssutils, out_bytes):
    """normalised projection of the reparsed output, or an error description (str)"""
    hit = _REPARSE.get(out_bytes)
    if hit is not None:
        return hit
    text = out_bytes.decode('utf-8')
    from cssutils.tokenize2 import Tokenizer
    if any(t[0] == 'INVALID' for t in Tokenizer().tokenize(text)):
        res = 'output contains an INVALID token: %r' % text
    else:
        saved = cssutils.ser.prefs
        cssutils.ser.prefs = cssutils.serialize.Preferences()
        try:
            cssutils.ser.prefs.keepEmptyRules = True
            cssutils.ser.prefs.resolveVariables = False
            re_sheet = cssutils.parseString(text, validate=False)
            res = _drop_charset([norm_rule(r) for r in projection.sheet(re_sheet)[1]])
        finally:
            cssutils.ser.prefs = saved
    if len(_REPARSE) > 20000:
        _REPARSE.clear()
    _REPARSE[out_bytes] = res
    return res


def check_output(cssutils, sheet, out_bytes, prefs, base):
    """(ii): reparse and compare with the expected projection; returns None or description"""
    got = reparsed(cssutils, out_bytes)
    if isinstance(got, str):
        return got
    want = _drop_charset(expected(base['rules'], prefs, base['variables'], base['used_uris']))
    if got != want:
        return 'reparsed output differs from the documented effect: %s' % projection.diff(got, want)
    return None


def _drop_charset(rs):
    return [r for r in rs if r[0] != 'charset']


def base_info(cssutils, sheet):
    saved = cssutils.ser.prefs
    cssutils.ser.prefs = cssutils.serialize.Preferences()
    try:
        cssutils.ser.prefs.keepEmptyRules = True
        cssutils.ser.prefs.resolveVariables = False
        rules = [norm_rule(r) for r in projection.sheet(sheet)[1]]
        variables = {}
        for r in sheet.cssRules:
            if r.type == r.VARIABLES_RULE:
                for k in r.variables.keys():
                    pv = cssutils.css.PropertyValue(r.variables[k])
                    variables[k.lower()] = [(t if t != 'ZERO' else 'NUMBER', _num_canon(v).lower())
                                            for t, v in projection._pv(pv)]
        used = set(sheet._getUsedURIs())
    finally:
        cssutils.ser.prefs = saved
    return {'rules': rules, 'variables': variables, 'used_uris': used}


CONTENT_PREFS = ['keepComments', 'keepAllProperties', 'resolveVariables', 'keepUnknownAtRules',
                 'keepUsedNamespaceRulesOnly', 'keepEmptyRules']
SPLIT_PREFS = ['keepComments', 'keepAllProperties', 'resolveVariables', 'keepEmptyRules']


def run_carrier(cindex, minified=False, split=None, max_nondefault=None):
    cssutils = common.setup_lifted()
    from sx.core import fresh_bool, fresh_int, SymBool
    Preferences = cssutils.serialize.Preferences
    text = CARRIERS[cindex]
    cssutils.log.raiseExceptions = False

    class SymPrefs(Preferences):
        """string preferences are realised (forked over their menu) when first read"""
        def __getattribute__(self, name):
            if name in STR_PREFS:
                choice = object.__getattribute__(self, '_sx_choice')
                if name in choice:
                    return STR_PREFS[name][int(choice[name])]
            return object.__getattribute__(self, name)

    default_out = {}

    def fn():
        cssutils.ser.prefs = Preferences()
        sheet = cssutils.parseString(text, validate=False, fetcher=lambda url: None) \
            if False else cssutils.CSSParser(validate=False, fetcher=lambda url: None).parseString(text)
        if 'out' not in default_out:
            default_out['out'] = sheet.cssText
            default_out['base'] = base_info(cssutils, sheet)
        prefs = SymPrefs()
        object.__setattr__(prefs, '_sx_choice', {})
        inputs = {'carrier': cindex, 'minified': minified}
        if minified:
            prefs.useMinified()
        else:
            for b in BOOL_PREFS:
                v = fresh_bool(b)
                if split is not None and b in SPLIT_PREFS:
                    from sx.core import eng as _eng
                    import z3 as _z3
                    bit = bool((split >> SPLIT_PREFS.index(b)) & 1)
                    _eng().assume(v.e if bit else _z3.Not(v.e))
                    v = bit
                setattr(prefs, b, v)
                inputs[b] = v
            for sname in STR_PREFS:
                c = fresh_int(sname, 0, len(STR_PREFS[sname]) - 1)
                prefs._sx_choice[sname] = c
                inputs[sname] = c
            if max_nondefault is not None:
                # "each preference alone, all pairs": at most k preferences differ from their default
                import z3 as _z3
                from sx.core import eng as _eng2
                dflt = Preferences()
                terms = []
                for b in BOOL_PREFS:
                    v = inputs[b]
                    if hasattr(v, 'e'):
                        terms.append(_z3.If(v.e == bool(getattr(dflt, b)), 0, 1))
                    elif v != getattr(dflt, b):
                        terms.append(1)
                for sname in STR_PREFS:
                    terms.append(_z3.If(inputs[sname].e == 0, 0, 1))
                _eng2().assume(sum(terms) <= max_nondefault)
        common.set_inputs(inputs)
        info = {'in': inputs, 'tags': []}
        cssutils.ser.prefs = prefs
        try:
            out = sheet.cssText
        except Exception as e:
            cssutils.ser.prefs = Preferences()
            info['note'] = 'cssText raised %s: %s' % (type(e).__name__, str(e)[:120])
            info['tags'].append('raised')
            return False, info
        info['tags'].append('serialised')
        # the decided values of the consulted content preferences; unconsulted ones did not matter
        from sx.core import eng
        m = eng().get_model()
        conc = common.concretise(inputs, m)
        pvals = {b: (conc[b] if not minified else getattr(prefs, b)) for b in BOOL_PREFS}
        # content preferences the serializer did not consult on this path are don't-cares: the output
        # must match the documented effect for BOTH of their values
        undecided = []
        if not minified:
            import z3 as _z3b
            for b in CONTENT_PREFS:
                v = inputs[b]
                if hasattr(v, 'e'):
                    sol = eng().solver
                    if sol.check(v.e) == _z3b.sat and sol.check(_z3b.Not(v.e)) == _z3b.sat:
                        undecided.append(b)
        info['tags'].append('undecided:%d' % len(undecided))
        try:
            d = None
            for mask in range(1 << len(undecided)):
                pv2 = dict(pvals)
                for i, b in enumerate(undecided):
                    pv2[b] = bool((mask >> i) & 1)
                d = check_output(cssutils, sheet, out, pv2, default_out['base'])
                if d is not None:
                    conc.update({b: pv2[b] for b in undecided})
                    info['in'] = dict(inputs, **{b: pv2[b] for b in undecided})
                    d = d + ' (unconsulted preferences %s taken as %s)' % (undecided, [pv2[b] for b in undecided])
                    break
            if d is None:
                # (iii) layout preferences change white space only
                cssutils.ser.prefs = _content_only(Preferences, pvals, conc, minified)
                ref = sheet.cssText
                if _stripped_tokens(cssutils, out.decode('utf-8')) != _stripped_tokens(cssutils, ref.decode('utf-8')):
                    d = 'layout preferences changed more than white space: %r vs %r' % (out, ref)
            if d is None:
                # (iv) restoring the defaults restores the default output
                prefs.useDefaults()
                object.__setattr__(prefs, '_sx_choice', {})
                cssutils.ser.prefs = prefs
                again = sheet.cssText
                if again != default_out['out']:
                    d = 'useDefaults() does not restore the default output'
        except Exception as e:
            d = 'checking the output raised %s: %s' % (type(e).__name__, str(e)[:160])
        finally:
            cssutils.ser.prefs = Preferences()
        if d:
            info['note'] = d
            return False, info
        return True, info

    return common.explore(fn, 'carrier(%d,minified=%s,split=%s,max_nondefault=%s)' % (cindex, minified, split, max_nondefault),
                          path_timeout_s=120.0)


def _content_only(Preferences, pvals, conc, minified):
    p = Preferences()
    for b in BOOL_PREFS:
        if b not in LAYOUT:
            setattr(p, b, pvals[b])
    if minified:
        p.importHrefFormat = 'string'
    elif 'importHrefFormat' in conc:
        p.importHrefFormat = STR_PREFS['importHrefFormat'][conc['importHrefFormat']]
    return p


SPLIT_PREFS6 = SPLIT_PREFS + ['keepUnknownAtRules', 'defaultPropertyName']


def jobs(tier):
    out = []
    n = 6 if tier == 'quick' else len(CARRIERS)
    for i in range(n):
        big = len(CARRIERS[i]) > 60
        if big:
            # every preference alone and all pairs (quick and thorough)
            out.append(('harness.c06', 'run_carrier', dict(cindex=i, max_nondefault=2)))
            if tier != 'quick':
                # every assignment in which at most three preferences leave their default, split 16 ways
                # (the full product of the kitchen-sink carrier does not finish within the per-job limit: measured)
                for k in range(16):
                    out.append(('harness.c06', 'run_carrier', dict(cindex=i, split=k, max_nondefault=3)))
        else:
            out.append(('harness.c06', 'run_carrier', dict(cindex=i)))
        out.append(('harness.c06', 'run_carrier', dict(cindex=i, minified=True)))
    return out


def main(tier):
    rep = common.Report(PROP, tier)
    results = common.run_jobs(jobs(tier))
    rep.add_results(results)
    cases = []
    for r in results:
        cases.extend(r['cex'])
    rep.handle_counterexamples(cases)
    rep.bounds = {'carriers': '%d carrier sheets (harness/c06.py CARRIERS); the kitchen-sink carrier is explored over all '
                              'assignments with at most two non-default preferences%s' % (
                                  6 if tier == 'quick' else len(CARRIERS), '' if tier == 'quick' else ' and, split 16 ways, over all assignments with at most three non-default preferences'),
                  'preferences': '%d boolean preferences as solver variables (2^%d assignments), %d string preferences '
                                 'over menus %s; plus the minified preset' % (
                                     len(BOOL_PREFS), len(BOOL_PREFS), len(STR_PREFS),
                                     {k: len(v) for k, v in STR_PREFS.items()})}
    rep.assumptions = ['validOnly, lineNumbers and indentSpecificities are held at their defaults',
                       'expected() implements the documented content effects independently (harness/c06.py)',
                       'per path the consulted preferences are decided and the others are don\'t-cares, so a path '
                       'covers every value of the preferences the serializer did not read']
    rep.outside = ['DOMs other than the carriers', 'validOnly / lineNumbers / indentSpecificities']
    rep.witness_required = ['serialised']
    return rep.finish()


# ---------------------------------------------------------------------- replay (unlifted)

def replay(case):
    import cssutils
    cssutils.log.setLevel(60)
    cssutils.log.raiseExceptions = False
    inp = case['inputs']
    Preferences = cssutils.serialize.Preferences
    cssutils.ser.prefs = Preferences()
    sheet = cssutils.CSSParser(validate=False, fetcher=lambda url: None).parseString(CARRIERS[inp['carrier']])
    default = sheet.cssText
    base = base_info(cssutils, sheet)
    p = Preferences()
    if inp.get('minified'):
        p.useMinified()
    else:
        for b in BOOL_PREFS:
            setattr(p, b, inp[b])
        for s, menu in STR_PREFS.items():
            setattr(p, s, menu[inp[s]])
    cssutils.ser.prefs = p
    setting = {k: getattr(p, k) for k in BOOL_PREFS + list(STR_PREFS)}
    diff = {k: v for k, v in setting.items() if v != getattr(Preferences(), k)}
    try:
        out = sheet.cssText
    except Exception as e:
        cssutils.ser.prefs = Preferences()
        import traceback
        site = None
        for fr in reversed(traceback.extract_tb(e.__traceback__)):
            if '/cssutils/' in fr.filename:
                site = '%s:%s' % (fr.filename.split('/cssutils/')[-1], fr.name)
                break
        return {'reproduced': True,
                'detail': 'carrier %d with preferences %r: cssText raised %s: %s at %s' % (inp['carrier'], diff, type(e).__name__, e, site),
                'fields': {'symptom': 'raises', 'exc': type(e).__name__, 'site': site,
                           'defaultAtKeyword': setting['defaultAtKeyword']}}
    pvals = {b: setting[b] for b in BOOL_PREFS}
    d = check_output(cssutils, sheet, out, pvals, base)
    if d is None:
        conc = {'importHrefFormat': inp.get('importHrefFormat', 0)}
        cssutils.ser.prefs = _content_only(Preferences, pvals, conc, inp.get('minified'))
        ref = sheet.cssText
        if _stripped_tokens(cssutils, out.decode('utf-8')) != _stripped_tokens(cssutils, ref.decode('utf-8')):
            d = 'layout preferences changed more than white space: %r vs %r' % (out, ref)
    if d is None:
        p.useDefaults()
        cssutils.ser.prefs = p
        if sheet.cssText != default:
            d = 'useDefaults() does not restore the default output'
    cssutils.ser.prefs = Preferences()
    if d is None:
        return {'reproduced': False, 'detail': 'preferences %r behave as documented' % (diff,)}
    return {'reproduced': True, 'detail': 'carrier %d (%r) with preferences %r: %s\n   output %r'
            % (inp['carrier'], CARRIERS[inp['carrier']][:60], diff, d, out),
            'fields': {'symptom': 'effect' if d.startswith('reparsed') else d.split(':')[0][:40],
                       'diffprefs': '+'.join(sorted(diff))}}
