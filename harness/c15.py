"""C15 - Namespace declarations and namespaced selectors stay consistent.

Histories: a start sheet from a menu, then k operations (each operation and its arguments chosen by solver
variables): mapping assignment / deletion, adding or inserting an @namespace rule, deleting a rule, adding a style
rule with a namespaced selector, replacing a selector, changing a rule's prefix, attaching a detached rule that
carries its own namespace dictionary.  After EVERY operation (accepted or rejected):
  A  dict(sheet.namespaces) equals the effective @namespace rules read from cssRules (last declaration of a URI
     wins; a later declaration of a prefix overrides an earlier one) and no URI is declared twice
  B  every namespace URI stored in a selector is declared
  C  every selector still holds the (URI, local name) pairs it was created with
  D  the serialisation parses without error and its selectors resolve to those same pairs (unprefixed type
     selectors stored without namespace: to the current default namespace)
  E  a rejected operation (DOMException) changed nothing
  F  deleting the only declaration of a URI that a selector uses is rejected; a selector with an undeclared prefix
     is rejected with NamespaceErr and one whose prefixes are declared is accepted
"""
from . import common

PROP = 'C15'

PREFIXES = ['', 'p', 'q']
URIS = ['u', 'v']
SELS = ['a', 'p|a', 'q|a', '*|a', '|a', 'p|*', '[q|x]', 'a p|b', ':not(q|a)', '*']
STARTS = [
    '',
    '@namespace p "u"; p|a{x:1}',
    '@namespace "u"; @namespace q "v"; a{x:1} q|b{x:1}',
    '@namespace p "u"; @namespace q "v"; p|a q|b{x:1} [q|x]{x:1} @media tv{p|c{x:1}}',
    '@charset "utf-8"; /*c*/ @namespace p "u"; @namespace q "v"; a{x:1}',
    '@namespace p "u"; @media tv{p|c{x:1}}',
]
OPS = ['ns_set', 'ns_del', 'add_ns', 'insert_ns', 'insert_ns_object', 'delete_rule', 'add_style', 'set_selector', 'set_prefix', 'attach']
# (number of choices for argument 1, argument 2)
ARITY = {'ns_set': (3, 2), 'ns_del': (3, 1), 'add_ns': (3, 2), 'insert_ns': (3, 2), 'insert_ns_object': (3, 2), 'delete_rule': (5, 1),
         'add_style': (len(SELS), 1), 'set_selector': (len(SELS), 1), 'set_prefix': (3, 1), 'attach': (2, 1)}

ANY = -1


def style_rules(sheet):
    out = []
    for r in sheet.cssRules:
        if r.type == r.STYLE_RULE:
            out.append(r)
        elif r.type == r.MEDIA_RULE:
            out.extend(x for x in r.cssRules if x.type == x.STYLE_RULE)
    return out


def pairs(selector):
    """the namespaced items of a selector: (kind, uri, local); uri None = no namespace information stored"""
    out = []
    for it in selector.seq:
        if it.type in ('type-selector', 'universal', 'negation-type-selector', 'negation-universal', 'attribute-selector'):
            v = it.value
            if isinstance(v, tuple):
                out.append((it.type.replace('negation-', ''), v[0], v[1]))
            else:
                out.append((it.type, 'noname-attr', v))
    return out


def effective(sheet):
    """mapping implied by the @namespace rules, computed here: the last declaration of a URI is the effective one,
    among those a later declaration of a prefix overrides an earlier one"""
    rules = [(r.prefix, r.namespaceURI) for r in sheet.cssRules if r.type == r.NAMESPACE_RULE]
    last_of_uri = {}
    for i, (p, u) in enumerate(rules):
        last_of_uri[u] = i
    m = {}
    for i, (p, u) in enumerate(rules):
        if last_of_uri[u] == i:
            m[p] = u
    return m, rules


def snapshot(sheet):
    return (sheet.cssText, sorted(sheet.namespaces.items()),
            [[pairs(s) for s in r.selectorList] for r in style_rules(sheet)])


def resolve_now(p, default):
    kind, uri, local = p
    if uri is None and kind in ('type-selector', 'universal'):
        return (kind, default, local)
    return p


def check_invariants(cssutils, sheet, tracked):
    """None or (letter, description)"""
    mapping = dict(sheet.namespaces.items())
    eff, rules = effective(sheet)
    if mapping != eff:
        return 'A', 'mapping', 'namespaces %r, the @namespace rules %r imply %r' % (mapping, rules, eff)
    uris = [u for _, u in rules]
    if len(set(uris)) != len(uris):
        return 'A', 'dup-uri', 'a URI is declared by two rules: %r' % (rules,)
    declared = set(mapping.values())
    for r in style_rules(sheet):
        for s in r.selectorList:
            for kind, uri, local in pairs(s):
                if isinstance(uri, str) and uri not in ('', 'noname-attr') and uri not in declared:
                    return 'B', 'undeclared-uri', 'selector %r uses URI %r, declared are %r' % (s.selectorText, uri, sorted(declared))
    for sel, want in tracked:
        got = pairs(sel)
        if got != want:
            return 'C', 'meaning', 'selector created with pairs %r now holds %r' % (want, got)
    text = sheet.cssText
    saved = cssutils.log.raiseExceptions
    try:
        again = cssutils.CSSParser(raiseExceptions=True, validate=False).parseString(text)
    except Exception as e:
        return 'D', 'unparsable', 'serialisation %r does not parse: %s %s' % (text, type(e).__name__, str(e)[:80])
    finally:
        cssutils.log.raiseExceptions = saved
    default_now = mapping.get('', None)
    default_again = dict(again.namespaces.items()).get('', None)
    a, b = style_rules(sheet), style_rules(again)
    if len(a) != len(b):
        return 'D', 'rule-count', 'serialisation %r has %d style rules, the sheet %d' % (text, len(b), len(a))
    for ra, rb in zip(a, b):
        pa = [[resolve_now(p, default_now) for p in pairs(s)] for s in ra.selectorList]
        pb = [[resolve_now(p, default_again) for p in pairs(s)] for s in rb.selectorList]
        if pa != pb:
            cls = 'other'
            raw = [p for s in ra.selectorList for p in pairs(s)]
            fa, fb = [p for x in pa for p in x], [p for x in pb for p in x]
            for r0, x, y in zip(raw, fa, fb):
                if x != y:
                    cls = ('attr-uri-became-default' if x[0] == 'attribute-selector' else
                           'unprefixed-before-default' if r0[1] is None else 'other')
                    break
            return 'D', cls, 'selector %r denotes %r, its serialisation in %r denotes %r' % (ra.selectorText, pa, text, pb)
    return None


def apply_op(cssutils, sheet, tracked, op, a1, a2):
    """returns ('accepted'|'rejected:<Exc>', F-violation or None)"""
    import xml.dom
    mapping = dict(sheet.namespaces.items())
    fviol = None
    expect = None        # 'accept' / 'reject' / None (either)
    try:
        if op == 'ns_set':
            sheet.namespaces[PREFIXES[a1]] = URIS[a2]
            if sheet.namespaces.get(PREFIXES[a1], None) != URIS[a2]:
                fviol = 'namespaces[%r] = %r accepted but the mapping is %r' % (PREFIXES[a1], URIS[a2], dict(sheet.namespaces.items()))
        elif op == 'ns_del':
            prefix = PREFIXES[a1]
            if prefix in mapping:
                uri = mapping[prefix]
                used = any(u == uri for r in style_rules(sheet) for s in r.selectorList for _, u, _ in pairs(s))
                expect = 'reject' if used else 'accept'
            else:
                expect = 'reject'
            del sheet.namespaces[prefix]
            if prefix in sheet.namespaces:
                fviol = 'del namespaces[%r] accepted but the prefix is still bound' % prefix
        elif op == 'add_ns':
            sheet.add('@namespace %s "%s";' % (PREFIXES[a1], URIS[a2]))
        elif op == 'insert_ns':
            sheet.insertRule('@namespace %s "%s";' % (PREFIXES[a1], URIS[a2]), 0)
        elif op == 'insert_ns_object':
            # a rule object, placed after the last @namespace (or leading @charset / @import) rule
            idx = 0
            for i, r in enumerate(sheet.cssRules):
                if r.type in (r.CHARSET_RULE, r.IMPORT_RULE, r.NAMESPACE_RULE):
                    idx = i + 1
            sheet.insertRule(cssutils.css.CSSNamespaceRule(prefix=PREFIXES[a1], namespaceURI=URIS[a2]), idx)
        elif op == 'delete_rule':
            if a1 < len(sheet.cssRules):
                r = sheet.cssRules[a1]
                if r.type == r.NAMESPACE_RULE:
                    uri = r.namespaceURI
                    others = [x for x in sheet.cssRules if x.type == x.NAMESPACE_RULE and x is not r and x.namespaceURI == uri]
                    used = any(u == uri for sr in style_rules(sheet) for s in sr.selectorList for _, u, _ in pairs(s))
                    expect = 'reject' if used and not others else 'accept'
            sheet.deleteRule(a1)
            # selectors of a deleted rule are no longer part of the sheet
            live = set(id(s) for r in style_rules(sheet) for s in r.selectorList)
            tracked[:] = [t for t in tracked if id(t[0]) in live]
        elif op in ('add_style', 'set_selector'):
            text = SELS[a1]
            need = [p for p in ('p', 'q') if (p + '|') in text]
            expect = 'accept' if all(p in mapping for p in need) else 'reject-ns'
            if op == 'add_style':
                sheet.add(text + '{x:1}')
                rule = style_rules(sheet)[-1]
            else:
                rs = style_rules(sheet)
                if not rs:
                    return 'skipped', None
                rule = rs[0]
                old = set(id(s) for s in rule.selectorList)
                rule.selectorText = text
                tracked[:] = [t for t in tracked if id(t[0]) not in old]
            for s in rule.selectorList:
                tracked.append((s, pairs(s)))
        elif op == 'set_prefix':
            nsr = [r for r in sheet.cssRules if r.type == r.NAMESPACE_RULE]
            if not nsr:
                return 'skipped', None
            nsr[0].prefix = PREFIXES[a1]
        elif op == 'attach':
            uri = URIS[a1]
            rule = cssutils.css.CSSStyleRule()
            rule.selectorText = ('z|a', {'z': uri})
            rule.style = 'x:1'
            expect = 'accept' if uri in mapping.values() else None
            sheet.add(rule)
            if rule.parentStyleSheet is sheet:
                for s in rule.selectorList:
                    tracked.append((s, [('type-selector', uri, 'a')]))
    except xml.dom.DOMException as e:
        name = type(e).__name__
        if expect == 'accept':
            fviol = 'rejected with %s although everything it needs is declared / nothing uses it' % name
        elif expect == 'reject-ns' and name != 'NamespaceErr':
            fviol = 'an undeclared prefix was rejected with %s, not NamespaceErr' % name
        return 'rejected:' + name, fviol
    if expect in ('reject', 'reject-ns') and not fviol:
        fviol = 'accepted although it %s' % ('uses an undeclared prefix' if expect == 'reject-ns' else
                                             'removes the only declaration of a URI in use (or of an unbound prefix)')
    return 'accepted', fviol


def describe(start, steps):
    out = ['start %r' % STARTS[start]]
    for op, a1, a2 in steps:
        if op in ('ns_set', 'add_ns', 'insert_ns', 'insert_ns_object'):
            out.append('%s(%r, %r)' % (op, PREFIXES[a1], URIS[a2]))
        elif op in ('ns_del', 'set_prefix'):
            out.append('%s(%r)' % (op, PREFIXES[a1]))
        elif op == 'delete_rule':
            out.append('deleteRule(%d)' % a1)
        elif op in ('add_style', 'set_selector'):
            out.append('%s(%r)' % (op, SELS[a1]))
        else:
            out.append('attach(z|a with z=%r)' % URIS[a1])
    return '; '.join(out)


def run_history(cssutils, start, steps, choose=None):
    """steps: list of (op, a1, a2) (concrete).  Returns None or (step index, letter, text)"""
    cssutils.log.raiseExceptions = True
    sheet = cssutils.CSSParser(validate=False).parseString(STARTS[start])
    cssutils.log.raiseExceptions = True
    tracked = [(s, pairs(s)) for r in style_rules(sheet) for s in r.selectorList]
    bad = check_invariants(cssutils, sheet, tracked)
    if bad:
        return (-1,) + bad
    for i, (op, a1, a2) in enumerate(steps):
        before = snapshot(sheet)
        outcome, fviol = apply_op(cssutils, sheet, tracked, op, a1, a2)
        if fviol:
            return i, 'F', 'outcome', '%s: %s' % (outcome, fviol)
        if outcome.startswith('rejected') and snapshot(sheet) != before:
            return i, 'E', 'rejected-changed', '%s but the sheet changed: %r -> %r' % (outcome, before[:2], snapshot(sheet)[:2])
        bad = check_invariants(cssutils, sheet, tracked)
        if bad:
            return (i,) + bad
    return None


def run_job(start, first, k):
    cssutils = common.setup_lifted()
    from sx.core import fresh_int

    def fn():
        steps = []
        inputs = {'start': start, 'k': k}
        for i in range(k):
            if i == 0:
                op = first
            else:
                o = fresh_int('op%d' % i, 0, len(OPS) - 1)
                inputs['op%d' % i] = o
                op = OPS[int(o)]
            n1, n2 = ARITY[op]
            a1 = fresh_int('a%d' % i, 0, n1 - 1)
            a2 = fresh_int('b%d' % i, 0, n2 - 1) if n2 > 1 else 0
            inputs['a%d' % i] = a1
            inputs['b%d' % i] = a2
            steps.append((op, int(a1), int(a2)))
        inputs['first'] = first
        common.set_inputs(inputs)
        info = {'in': inputs, 'tags': ['op:' + s[0] for s in steps]}
        bad = run_history(cssutils, start, steps)
        if bad:
            info['note'] = '%s: step %d, invariant %s (%s): %s' % (describe(start, steps), bad[0], bad[1], bad[2], bad[3])
            return False, info
        return True, info

    return common.explore(fn, 'history(start=%d,first=%s,k=%d)' % (start, first, k), path_timeout_s=120.0, max_cex=60)


def run_job_entry(start, first, k):
    return run_job(start, first, k)


def jobs(tier):
    out = []
    ks = (1, 2) if tier == 'quick' else (1, 2, 3)
    for k in ks:
        for s in range(len(STARTS)):
            for op in OPS:
                out.append(('harness.c15', 'run_job_entry', dict(start=s, first=op, k=k)))
    out.sort(key=lambda j: -j[2]['k'])
    return out


def main(tier):
    rep = common.Report(PROP, tier)
    results = common.run_jobs(jobs(tier), job_timeout_s=900 if tier == 'quick' else 5000)
    rep.add_results(results)
    cases = []
    for r in results:
        cases.extend(r['cex'])
    rep.handle_counterexamples(cases)
    k = 2 if tier == 'quick' else 3
    rep.bounds = {'histories': 'every sequence of <= %d operations from %r with arguments over prefixes %r, URIs %r, selectors %r, '
                               'rule indices 0..4, from each of the start sheets %r' % (k, OPS, PREFIXES, URIS, SELS, STARTS)}
    rep.assumptions = ['finite-choice histories: solver-driven enumeration (leverage about 1)',
                       'effective mapping computed by harness/c15.py effective()',
                       'an unprefixed type selector stored without namespace follows the current default namespace']
    rep.outside = ['histories longer than %d' % k, 'prefixes / URIs outside the menus', 'namespace rules inside imported sheets']
    rep.witness_required = ['op:' + o for o in OPS]
    return rep.finish()


# ---------------------------------------------------------------------- replay (unlifted)

def replay(case):
    import cssutils
    cssutils.log.setLevel(60)
    inp = case['inputs']
    k = inp['k']
    steps = []
    for i in range(k):
        op = inp['first'] if i == 0 else OPS[inp['op%d' % i]]
        steps.append((op, inp['a%d' % i], inp['b%d' % i]))
    bad = run_history(cssutils, inp['start'], steps)
    if not bad:
        return {'reproduced': False, 'detail': 'history keeps all invariants'}
    i, letter, cls, text = bad
    # shortest prefix of the history that shows it
    shown = steps[:i + 1]
    return {'reproduced': True,
            'detail': '%s: after step %d invariant %s fails: %s' % (describe(inp['start'], shown), i, letter, text),
            'fields': {'symptom': letter, 'class': cls, 'last_op': shown[-1][0] if shown else 'start', 'start': inp['start'],
                       'ops': '+'.join(s[0] for s in shown)}}
