"""C01 - Parsing any input returns a DOM: it never raises and never hangs.

'One step from an arbitrary parser state' (DESIGN 3 C01): each concrete context (prefix, suffix)
of harness/pipeline.py puts one of the hand-written state machines into one of its states; a
symbolic infix of every length <= n over all of Unicode is inserted and the whole public pipeline
runs on the real (lifted) code: parse -> cssText -> parse(cssText bytes) -> cssText.  Assertion on
every path: no exception escapes, the first call returns a CSSStyleSheet / CSSStyleDeclaration,
the path finishes within the time budget.  Each path's model is additionally run concretely with
validate=True.
"""
from . import common
from .pipeline import SHEET_CONTEXTS, STYLE_CONTEXTS

PROP = 'C01'

FETCHERS = ['none', 'nonepair', 'text', 'selfimport']


def _fetcher(kind):
    if kind == 'none':
        return lambda url: None
    if kind == 'nonepair':
        return lambda url: (None, None)
    if kind == 'text':
        return lambda url: (None, 'a{x:1}')
    if kind == 'selfimport':
        return lambda url: (None, '@import "x"; b{y:2}')
    raise ValueError(kind)


def pipeline(cssutils, text, entry, parse_comments, validate, fetcher):
    """the five public calls; returns (stage reached, exception or None, first result)"""
    parser = cssutils.CSSParser(parseComments=parse_comments, validate=validate,
                                fetcher=_fetcher(fetcher))
    stage = 'parse'
    first = None
    try:
        if entry == 'sheet':
            first = parser.parseString(text)
            stage = 'serialise'
            t1 = first.cssText
            stage = 'reparse'
            second = parser.parseString(t1)
            stage = 'reserialise'
            second.cssText
        else:
            first = parser.parseStyle(text)
            stage = 'serialise'
            t1 = first.cssText
            stage = 'reparse'
            second = parser.parseStyle(t1)
            stage = 'reserialise'
            second.cssText
    except Exception as e:
        return stage, e, first
    return 'done', None, first


def run_ctx(ctx_index, entry, n, parse_comments=True, fetcher='none', path_timeout_s=45.0,
            alphabet='reduced'):
    cssutils = common.setup_lifted()
    from sx.symstr import fresh_str, reduced_alphabet
    amask = reduced_alphabet() if alphabet == 'reduced' else None
    from sx.core import eng
    ctxs = SHEET_CONTEXTS if entry == 'sheet' else STYLE_CONTEXTS
    prefix, suffix = ctxs[ctx_index]
    want = cssutils.css.CSSStyleSheet if entry == 'sheet' else cssutils.css.CSSStyleDeclaration

    def fn():
        s = fresh_str(n, mask=amask)
        text = prefix + s + suffix
        inputs = {'text': text, 'entry': entry, 'parseComments': parse_comments,
                  'fetcher': fetcher, 'validate': False}
        common.set_inputs(inputs)
        info = {'in': inputs, 'tags': []}
        cssutils.log.raiseExceptions = True
        stage, exc, first = pipeline(cssutils, text, entry, parse_comments, False, fetcher)
        if exc is not None:
            info['note'] = '%s raised %s: %s' % (stage, type(exc).__name__, str(exc)[:200])
            info['tags'].append('raised')
            return False, info
        if not isinstance(first, want):
            info['note'] = 'parse returned %s' % type(first).__name__
            return False, info
        info['tags'].append('returned')
        # the same input, concretely, with validation on
        conc = common.concretise(text, eng().get_model())
        stage, exc, first = pipeline(cssutils, conc, entry, parse_comments, True, fetcher)
        if exc is not None:
            info['in'] = dict(inputs, text=conc, validate=True)
            info['note'] = '(validate=True) %s raised %s: %s' % (stage, type(exc).__name__, str(exc)[:200])
            return False, info
        return True, info

    return common.explore(fn, 'ctx(%s,%r,%r,n=%d,pc=%s,fetch=%s)'
                          % (entry, prefix, suffix, n, parse_comments, fetcher),
                          path_timeout_s=path_timeout_s)


CORE_SHEET = ['', 'a{', 'a{b:', 'a{b:c', '@', '@media ', 'a', 'a[', 'a:', 'a{b:f(', 'a{b:rgb(',
              'a{b:var(', 'a{b:url(', 'a{b:"', '@import ', '@charset ', 'a{b:1', 'a{b:#',
              'a{b:calc(', '@page ', '@x ', 'a:not(', '@namespace ', 'a{b:c!']
CORE_STYLE = ['', 'b:', 'b:c', 'b:f(', 'b:rgb(', 'b:var(', 'b:1']


def jobs(tier):
    out = []
    nall = 1 if tier == 'quick' else 2
    ncore = 2 if tier == 'quick' else 3
    for entry, ctxs, core in (('sheet', SHEET_CONTEXTS, CORE_SHEET), ('style', STYLE_CONTEXTS, CORE_STYLE)):
        for i, (pre, suf) in enumerate(ctxs):
            top = ncore if (pre in core and not suf) else nall
            for n in range(0, top + 1):
                out.append(('harness.c01', 'run_ctx', dict(ctx_index=i, entry=entry, n=n)))
            if entry == 'sheet':
                out.append(('harness.c01', 'run_ctx',
                            dict(ctx_index=i, entry='sheet', n=1, parse_comments=False)))
                if '@import' in pre:
                    for f in FETCHERS[1:]:
                        out.append(('harness.c01', 'run_ctx',
                                    dict(ctx_index=i, entry='sheet', n=1, fetcher=f)))
    out.sort(key=lambda j: -j[2]['n'])
    return out


def main(tier):
    rep = common.Report(PROP, tier)
    results = common.run_jobs(jobs(tier))
    rep.add_results(results)
    cases = []
    for r in results:
        cases.extend(r['cex'])
        for t in r['timeouts']:
            if t.get('inputs'):
                cases.append({'job': r['job'], 'inputs': t['inputs'], 'note': 'path time budget exceeded'})
            else:
                rep.harness_errors.append('path timeout without model in %s' % r['job'])
    rep.handle_counterexamples(cases)
    nmax = '1 (2 for the %d core contexts)' % (len(CORE_SHEET) + len(CORE_STYLE)) if tier == 'quick' \
        else '2 (3 for the %d core contexts)' % (len(CORE_SHEET) + len(CORE_STYLE))
    rep.bounds = {
        'contexts': '%d sheet-level and %d style-attribute (prefix, suffix) contexts'
                    % (len(SHEET_CONTEXTS), len(STYLE_CONTEXTS)),
        'infix': 'every Unicode string of length <= %s (each character a solver variable)' % nmax,
        'options': 'parseComments on (all n) / off (n=1); fetcher answers None, (None, None), '
                   '(None, text), self-importing sheet for the @import contexts',
        'path_timeout_s': 45,
    }
    rep.assumptions = [
        'validation is off on symbolic values (validate=False); every path is additionally executed '
        'concretely on its solver model with validate=True',
        'logging is a stub that formats nothing',
    ]
    rep.stubs = ['logging: StubLog', 'fetcher: in-memory answers', 'codecs: sx/pycodecs.py']
    rep.outside = ['texts whose distinguishing part is longer than the infix bound beyond a listed context',
                   'byte input with legacy encodings', 'nesting depth sweeps and the polynomial-time bound',
                   'validation on symbolic values (C13)']
    rep.witness_required = ['returned']
    return rep.finish()


# ---------------------------------------------------------------------- replay (unlifted)

def replay(case):
    import cssutils
    import traceback
    cssutils.log.setLevel(60)
    inp = case['inputs']
    cssutils.log.raiseExceptions = True
    stage, exc, first = pipeline(cssutils, inp['text'], inp['entry'], inp['parseComments'],
                                 inp.get('validate', False), inp['fetcher'])
    cssutils.log.raiseExceptions = True
    if exc is None:
        return {'reproduced': False, 'detail': 'pipeline completed without exception for %r' % inp['text']}
    tb = traceback.extract_tb(exc.__traceback__)
    site = None
    for fr in reversed(tb):
        if '/cssutils/' in fr.filename or '/encutils/' in fr.filename:
            site = '%s:%s' % (fr.filename.split('/cssutils/')[-1].split('/encutils/')[-1], fr.name)
            break
    return {'reproduced': True,
            'detail': '%s(%r) [parseComments=%s, validate=%s, fetcher=%s]: %s raised %s: %s at %s'
                      % ('parseString' if inp['entry'] == 'sheet' else 'parseStyle', inp['text'],
                         inp['parseComments'], inp.get('validate', False), inp['fetcher'], stage,
                         type(exc).__name__, str(exc)[:200], site),
            'fields': {'symptom': 'raises', 'stage': stage, 'exc': type(exc).__name__, 'site': site,
                       'entry': inp['entry'], 'text': inp['text'],
                       'fetcher_cyclic': inp['fetcher'] == 'selfimport'}}
