"""CLI: python -m harness.main <PROP> [--tier quick|thorough] [--replay file]"""
import argparse
import importlib
import json
import os
import sys


def main():
    ap = argparse.ArgumentParser()
    ap.add_argument('prop')
    ap.add_argument('--tier', default=os.environ.get('VERIF_TIER') or 'quick',
                    choices=['quick', 'thorough'])
    ap.add_argument('--replay')
    a = ap.parse_args()
    if a.replay:
        from . import common
        import subprocess
        p = subprocess.run([sys.executable, '-m', 'harness.replay_main', a.prop, a.replay],
                           cwd=common.VERIF, capture_output=True, text=True,
                           env=dict(os.environ, PYTHONPATH=common.SX_ROOT))
        for line in p.stdout.splitlines():
            if line.startswith('REPLAY-RESULTS '):
                for r in json.loads(line[15:]):
                    print('reproduced:', r.get('reproduced'))
                    print(r.get('detail'))
                    sys.exit(1 if r.get('reproduced') else 0)
        print(p.stdout, p.stderr)
        sys.exit(3)
    mod = importlib.import_module('harness.%s' % a.prop.lower())
    sys.exit(mod.main(a.tier))


if __name__ == '__main__':
    main()
