"""C13 - Validation verdict depends only on name, value, profiles; it only annotates.

1. grammar   (RX, unbounded in the length of the value) for each of the CSS 2.1 properties of
             ref/css21_props.py the live, macro-expanded pattern of the CSS 2.1 profile is compared
             with the reference grammar in z3's regex theory, both directions.  Every witness is
             replayed through the real profile; witnesses are classified by input features; a
             recorded finding is excluded by a regular constraint and the query repeated, so that a
             different disagreement is still found (DESIGN 5).
2. lookup    (SX) validate / validateWithProfile with a symbolic property name of length <= 3 and
             each compiled pattern replaced by a symbolic verdict bit: unknown names are never valid,
             valid <=> some registered profile defining the name accepts.
3. spelling  (SX) value skeletons with symbolic letter case and symbolic gap fillers (white space /
             comment): Property.value is the same up to letter case and Property.valid is the same;
             validate on/off leaves cssText byte-identical; constructed / setProperty / parsed agree.
4. aggregate (SX) style.valid / rule.valid / sheet.valid with per-property verdicts replaced by symbolic
             bits equal the conjunction; validating flag resolution.
"""
import re

from . import common

PROP = 'C13'

CSS_WS = ' \t\r\n\f'


def _py_ws_extra():
    return ''.join(chr(c) for c in range(0x110000) if chr(c).isspace() and chr(c) not in CSS_WS
                   and c <= 0x2FFFF)


def _nonascii_digits():
    return ''.join(chr(c) for c in range(0x80, 0x30000) if chr(c).isdecimal())


def _casefold_to_ascii():
    """non-ASCII characters that match an ASCII letter under re.I (computed with re itself)"""
    out = []
    for c in range(0x80, 0x30000):
        ch = chr(c)
        cands = {ch.lower(), ch.upper().lower(), 'i', 's', 'k'}
        for a in cands:
            if len(a) == 1 and a.isascii() and a.isalpha() and re.fullmatch(a, ch, re.I):
                out.append(ch)
                break
    return ''.join(out)


CASEFOLD_TO_ASCII = _casefold_to_ascii()
SYSTEM = None

# feature name -> (direction or None, predicate on witness, exclusion regex (python syntax, DOTALL))


def features(direction, w, name):
    from ref import css21_props as R
    f = []
    if any(c in CASEFOLD_TO_ASCII for c in w):
        f.append('casefold')
    if any(ord(c) > 127 and c.isdecimal() for c in w):
        f.append('unicode-digit')
    if any(c.isspace() and c not in CSS_WS for c in w):
        f.append('py-whitespace')
    if direction == 'accepts-extra':
        if w.endswith('\n'):
            f.append('trailing-newline')
        if w.lower().startswith('url('):
            f.append('uri-lenient')
        if re.fullmatch(r'[a-z]+', w, re.I) and 'color' in name:
            f.append('css3-colour-keyword')
        if re.match(r'(rgba|hsl|hsla)\(', w, re.I) and 'color' in name:
            f.append('css3-colour-function')
        if w == '0' and name in ('pitch', 'pause-after', 'pause-before'):
            f.append('unitless-zero-time-frequency')
        if name == 'font-size' and re.fullmatch(r'-[0-9.]+%', w):
            f.append('negative-percentage')
        if re.fullmatch(r'[-]?[0-9]*\.?[0-9]+(em|ex|px|in|cm|mm|pt|pc)?|0+', w, re.I) and False:
            pass
    else:
        if re.search(r'\+[0-9.]', w):
            f.append('plus-sign')
        if name == 'font-size' and re.fullmatch(r'[+-]?[0-9.]+%', w):
            f.append('font-size-percentage-sign')
        if re.fullmatch(R.ZERO, w) and w != '0':
            f.append('zero-spelling')
        if w.lower().startswith('url('):
            f.append('uri-strict')
        if re.fullmatch(R.SYSTEM, w, re.I):
            f.append('system-colour')
        if re.search(r'rgb\(', w, re.I) and re.search(r'[ \t\r\n\f]', w):
            f.append('rgb-space')
    return f


def exclusion(feature):
    """python regex (DOTALL) describing the strings that have the feature"""
    from ref import css21_props as R
    if feature == 'casefold':
        return '.*[%s].*' % CASEFOLD_TO_ASCII
    if feature == 'unicode-digit':
        return '.*[%s].*' % re.escape(_nonascii_digits())
    if feature == 'py-whitespace':
        return '.*[%s].*' % re.escape(_py_ws_extra())
    if feature == 'trailing-newline':
        return '.*\n'
    if feature in ('uri-lenient', 'uri-strict'):
        return '[uU][rR][lL]\\(.*'
    if feature == 'css3-colour-function':
        return '(?i:rgba|hsl|hsla)\\(.*'
    if feature == 'negative-percentage':
        return '-[0-9.]+%'
    if feature == 'unitless-zero-time-frequency':
        return '0'
    if feature == 'css3-colour-keyword':
        return '[a-zA-Z]+'
    if feature == 'plus-sign':
        return '.*\\+[0-9.].*'
    if feature == 'zero-spelling':
        return '[+-]?(?:0+|0*\\.0+)'
    if feature == 'system-colour':
        return '(?i:%s)' % R.SYSTEM
    if feature == 'rgb-space':
        return '(?i:rgb)\\(.*[ \t\r\n\f].*'
    raise KeyError(feature)


def run_grammar(name, max_rounds=14, timeout_ms=30000):
    """RX lemma for one property; returns a result dict in the shape of common.explore"""
    import time
    import z3
    cssutils = common.setup_lifted()
    from rx import translate as T
    from ref import css21_props as R
    t0 = time.time()
    prof = cssutils.profile
    if name not in prof._profilesProperties[prof.CSS_LEVEL_2]:
        return {'job': 'grammar(%s)' % name, 'cex': [], 'timeouts': [], 'tags': {'missing': 1}, 'samples': [],
                'functions': [], 'errors': [], 'cex_total': 0, 'obligations': [], 'missing': True, 'wall_s': 0,
                'stats': {'paths': 0, 'decisions': 0, 'queries': 0, 'solver_time_s': 0, 'unknown_queries': 0,
                          'inconclusive_paths': [], 'realisations': 0, 'budget_exhausted': False}}
    lz = prof._profilesProperties[prof.CSS_LEVEL_2][name]
    real = T.to_z3(lz.pattern, lz.flags | re.U)
    ref = T.to_z3(R.PROPS[name], re.I | re.A)
    res = {'job': 'grammar(%s)' % name, 'cex': [], 'timeouts': [], 'tags': {}, 'samples': [],
           'functions': ['cssutils/profiles.py:Profiles._expand_macros (pattern read live)'],
           'errors': [], 'cex_total': 0, 'obligations': []}
    queries = 0
    unknown = 0
    for direction, a, b in (('accepts-extra', real, ref), ('rejects-valid', ref, real)):
        excluded = []
        status = None
        for rnd in range(max_rounds):
            extra = [(lambda s, rx=T.to_z3(exclusion(f), re.S): z3.Not(z3.InRe(s, rx))) for f in excluded]
            try:
                queries += 1
                w = T.witness(a, b, extra=extra, timeout_ms=timeout_ms)
            except TimeoutError:
                unknown += 1
                status = 'unknown'
                break
            if w is None:
                status = 'discharged' if not excluded else 'discharged-modulo:' + '+'.join(excluded)
                break
            fs = [f for f in features(direction, w, name) if f not in excluded]
            res['cex'].append({'job': res['job'], 'inputs': {'name': name, 'value': w, 'direction': direction},
                               'note': fs})
            res['cex_total'] += 1
            if not fs:
                status = 'violated'
                break
            excluded.append(fs[0])
        else:
            status = 'rounds-exhausted'
        res['obligations'].append(('%s %s' % (name, direction), status))
        res['tags']['%s:%s' % (direction, status.split(':')[0])] = 1
    res['stats'] = {'paths': 2, 'decisions': queries, 'queries': queries, 'solver_time_s': round(time.time() - t0, 2),
                    'unknown_queries': unknown, 'inconclusive_paths': [], 'realisations': 0,
                    'budget_exhausted': False}
    res['wall_s'] = round(time.time() - t0, 2)
    res['samples'] = [{'inputs': {'property': name, 'real_pattern': lz.pattern[:160],
                                  'reference': R.PROPS[name][:160]}}]
    return res


# ---------------------------------------------------------------------- 2. lookup logic (SX)

def run_lookup(n):
    cssutils = common.setup_lifted()
    from sx.symstr import fresh_str
    from sx.core import fresh_bool, sym_or, sym_and, eng
    from sx.mask import Mask
    import cssutils.profiles as profiles_mod

    class Bit:
        """stands in for a compiled pattern: symbolic verdict"""
        def __init__(self, b):
            self.b = b

        def __call__(self, value):
            return self.b

    def fn():
        prof = profiles_mod.Profiles(log=cssutils.log)
        name = fresh_str(n, mask=Mask.of('abcdefghijklmnopqrstuvwxyz-'))
        inputs = {'name': name}
        common.set_inputs(inputs)
        info = {'in': inputs, 'tags': []}
        # replace every compiled pattern of the candidate names by a verdict bit
        bits = {}
        known = set()
        for pname, props in prof._profilesProperties.items():
            for k in list(props.keys()):
                known.add(k)
                if len(k) == n:
                    b = fresh_bool('v')
                    bits[(pname, k)] = b
                    props[k] = Bit(b)
        r = prof.validate(name, 'x')
        vw = prof.validateWithProfile(name, 'x')
        # oracle: OR of the bits of the profiles that define exactly this name
        expect = False
        isknown = False
        for (pname, k), b in bits.items():
            same = (name == k)
            expect = sym_or(expect, sym_and(same, b))
            isknown = sym_or(isknown, same)
        info['tags'].append('known' if bool(isknown) else 'unknown')
        ok1 = (r == expect) if not isinstance(r, bool) or not isinstance(expect, bool) else (r == expect)
        ok2 = (vw[0] == expect)
        return sym_and(_same(r, expect), _same(vw[0], expect)), info

    return common.explore(fn, 'lookup(n=%d)' % n, path_timeout_s=120.0)


def _same(a, b):
    from sx.core import SymBool, sym_and, sym_or, sym_not
    if isinstance(a, bool) and isinstance(b, bool):
        return a == b
    return sym_or(sym_and(a, b), sym_and(sym_not(a), sym_not(b)))


# ---------------------------------------------------------------------- 3. spelling / provenance (SX)

SKELETONS = [
    # (property, value tokens); letters get symbolic case, gaps get symbolic fillers
    ('float', ['left']), ('margin-left', ['5', 'px']), ('color', ['red']), ('color', ['#', 'aBc']),
    ('font-family', ['a', ',', 'b']), ('margin', ['1', 'px', ' ', '2', 'em']),
    ('color', ['rgb(', '1', ',', '2', ',', '3', ')']), ('background-image', ['url(', 'x', ')']),
    ('z-index', ['-', '1']), ('font-weight', ['bold']), ('border', ['1', 'px', ' ', 'solid', ' ', 'red']),
    ('left', ['+', '5', 'px']), ('top', ['0']), ('font-size', ['0.5', 'em']), ('font-size', ['.5', 'em']),
    ('width', ['.25', 'px']), ('line-height', ['0.5']), ('display', ['inline-block']), ('x-unknown', ['a']),
]
GAPS = ['', ' ', '/**/', ' /**/ ', '\n']
EDGE = ['', ' ', '/**/']


def _cased(e, word, tag):
    """word with every ASCII letter in symbolic case (a solver variable ranging over the two
    spellings, so that the regex layer can prune with its domain)"""
    import z3
    from sx.symstr import SymStr
    from sx.mask import Mask
    ch = []
    for c in word:
        if c.isalpha() and c.isascii():
            u, l = ord(c.upper()), ord(c.lower())
            v = e.fresh_int(tag, min(u, l), max(u, l))
            m = Mask.of([u, l])
            e.assume(z3.Or(v == u, v == l), {v.get_id(): (v, m)})
            ch.append(v)
        else:
            ch.append(ord(c))
    return SymStr.mk(ch)


def run_spelling(sindex):
    cssutils = common.setup_lifted()
    from sx.core import eng, fresh_int, sym_and
    from sx.symstr import SymStr
    from sx import symre
    pname, toks = SKELETONS[sindex]

    def fn():
        e = eng()
        parts = []
        gaps_used = []
        for i, t in enumerate(toks):
            if t == ' ':
                g = fresh_int('gap', 1, len(GAPS) - 1)
                gaps_used.append(g)
                parts.append(GAPS[int(g)])
            else:
                parts.append(_cased(e, t, 'case'))
        lead = fresh_int('lead', 0, len(EDGE) - 1)
        trail = fresh_int('trail', 0, len(EDGE) - 1)
        value = symre._join([EDGE[int(lead)]] + parts + [EDGE[int(trail)]], False)
        canon = ''.join(toks)
        inputs = {'property': pname, 'value': value, 'canonical': canon}
        common.set_inputs(inputs)
        info = {'in': inputs, 'tags': []}
        cssutils.log.raiseExceptions = False
        css = cssutils.css
        # serializer preferences must not influence a verdict
        from sx.core import fresh_bool
        olz = fresh_bool('omitLeadingZero')
        inputs['omitLeadingZero'] = olz
        cssutils.ser.prefs.useDefaults()
        try:
            text = pname + ':' + value
            sheet_v = cssutils.parseString('a{' + text + '}', validate=True)
            sheet_n = cssutils.parseString('a{' + text + '}', validate=False)
            ref_sheet = cssutils.parseString('a{%s:%s}' % (pname, canon), validate=True)
        except Exception as ex:
            info['note'] = 'raised %s: %s' % (type(ex).__name__, str(ex)[:120])
            return False, info
        pv = sheet_v.cssRules[0].style.getProperties(all=True)
        pr = ref_sheet.cssRules[0].style.getProperties(all=True)
        if len(pv) != len(pr):
            info['note'] = 'declaration lost for this spelling (%d vs %d)' % (len(pv), len(pr))
            return False, info
        if not pv:
            info['tags'].append('dropped')
            return True, info
        p, q = pv[0], pr[0]
        qvalid = q.valid
        info['tags'].append('valid' if qvalid else 'invalid')
        cssutils.ser.prefs.omitLeadingZero = olz
        pvalid_pref = p.valid
        cssutils.ser.prefs.useDefaults()
        if pvalid_pref != qvalid:
            info['note'] = 'valid changes with the serializer preference omitLeadingZero: %r vs %r' % (pvalid_pref, qvalid)
            return False, info
        conds = []
        # verdict identical for every spelling
        if p.valid != q.valid:
            info['note'] = 'valid differs from the canonical spelling: %r vs %r' % (p.valid, q.valid)
            return False, info
        # the value handed to validation is the same up to letter case
        conds.append(_lower_eq(p.value, q.value))
        # validation only annotates
        t_v, t_n = sheet_v.cssText, sheet_n.cssText
        conds.append(t_v == t_n)
        # provenance: constructed and set through the DOM
        try:
            c = css.Property(pname, value)
            st = css.CSSStyleDeclaration()
            st.setProperty(pname, value)
            d = st.getProperties(all=True)[0]
            if c.valid != q.valid or d.valid != q.valid:
                info['note'] = 'valid depends on how the property was created: parsed %r constructed %r set %r' % (
                    q.valid, c.valid, d.valid)
                return False, info
        except Exception as ex:
            info['note'] = 'constructing the property raised %s' % type(ex).__name__
            return False, info
        # round trip keeps the verdict
        again = cssutils.parseString(t_v, validate=True).cssRules[0].style.getProperties(all=True)
        if len(again) != 1 or again[0].valid != q.valid:
            info['note'] = 'verdict changes after serialise/reparse'
            return False, info
        return sym_and(*conds), info

    return common.explore(fn, 'spelling(%s:%s)' % (pname, ''.join(toks)), path_timeout_s=120.0)


def _lower_eq(a, b):
    al = a.lower() if hasattr(a, 'lower') else a
    bl = b.lower() if hasattr(b, 'lower') else b
    return al == bl


# ---------------------------------------------------------------------- 4. aggregation (SX)

AGG_SHEET = 'a{x:1;y:2;x:3} @media tv{b{z:3}} @font-face{font-family:f;src:url(s)} @page{v:5} c{u:6}'


AGG_KINDS = ['overridden', 'style', 'style', 'media', 'fontface', 'fontface', 'page', 'style']


def _all_props(sheet):
    props = []
    for r in sheet.cssRules:
        styles = []
        if hasattr(r, 'style'):
            styles.append(r.style)
        if r.type == r.MEDIA_RULE:
            for rr in r.cssRules:
                styles.append(rr.style)
        for st in styles:
            props.extend(st.getProperties(all=True))
    return props


def run_aggregate():
    cssutils = common.setup_lifted()
    from sx.core import fresh_bool, sym_and

    # stub for the regex layer: each declaration's verdict is a solver variable
    cssutils.css.Property.valid = property(lambda self: self._sx_valid)

    def fn():
        sheet = cssutils.parseString(AGG_SHEET, validate=False)
        props = _all_props(sheet)
        bits = []
        for p in props:
            b = fresh_bool('valid')
            bits.append(b)
            p._sx_valid = b
        inputs = {'verdicts': list(bits), 'aggregate': True}
        common.set_inputs(inputs)
        info = {'in': inputs, 'tags': ['aggregate']}
        got = sheet.valid
        return _same(got, sym_and(*bits)), info

    return common.explore(fn, 'aggregate')


def jobs(tier):
    from ref import css21_props as R
    out = []
    for name in R.PROPS:
        out.append(('harness.c13', 'run_grammar', dict(name=name)))
    for i in range(len(SKELETONS)):
        out.append(('harness.c13', 'run_spelling', dict(sindex=i)))
    for n in (1, 2, 3) if tier == 'quick' else (1, 2, 3, 4):
        out.append(('harness.c13', 'run_lookup', dict(n=n)))
    out.append(('harness.c13', 'run_aggregate', {}))
    return out


def main(tier):
    rep = common.Report(PROP, tier)
    js = jobs(tier)
    results = common.run_jobs(js)
    missing = [r['job'] for r in results if r.get('missing')]
    rep.add_results(results)
    cases = []
    for r in results:
        cases.extend(r['cex'])
        for o in r.get('obligations', []):
            name, status = o
            ok = status.startswith('discharged')
            rep.obligations.append((name, 'discharged' if ok else status))
            if status.startswith('discharged-modulo'):
                rep.extra.setdefault('lemmas_modulo_known_findings', []).append('%s (%s)' % (name, status))
    rep.handle_counterexamples(cases)
    rep.extra['properties_not_in_live_css21_profile'] = missing
    rep.bounds = {
        'grammar': 'unbounded value length; alphabet = z3 characters 0..0x2FFFF; %d properties x 2 directions'
                   % (len(js) - len(SKELETONS)),
        'spelling': '%d value skeletons, every ASCII letter in symbolic case, each gap a symbolic choice of %d fillers'
                    % (len(SKELETONS), len(GAPS)),
        'lookup': 'property names of length <= %d over [a-z-], verdict bits symbolic' % (3 if tier == 'quick' else 4),
    }
    rep.assumptions = ['reference grammars: ref/css21_props.py (typed from CSS 2.1 Appendix F / 4.3)',
                       'the verdict compared in (1) is that of the CSS 2.1 profile\'s own pattern',
                       'z3 regex theory; sre parse tree -> z3 Re translation rx/translate.py (validated on the '
                       'witnesses and a corpus by selfcheck)']
    rep.outside = ['shorthand and multi-component properties\' agreement with CSS 2.1',
                   'code points above U+2FFFF in (1)']
    rep.witness_required = []
    return rep.finish()


# ---------------------------------------------------------------------- replay (unlifted)

def replay(case):
    import cssutils
    from ref import css21_props as R
    cssutils.log.setLevel(60)
    inp = case['inputs']
    if 'direction' in inp:
        name, w, direction = inp['name'], inp['value'], inp['direction']
        prof = cssutils.profile
        real = bool(prof._profilesProperties[prof.CSS_LEVEL_2][name](w))
        ref = re.fullmatch(R.PROPS[name], w, re.I | re.A) is not None
        if real == ref:
            return {'reproduced': False, 'detail': 'profile and reference agree on %r (%s)' % (w, real)}
        fs = features(direction, w, name)
        return {'reproduced': True,
                'detail': 'CSS 2.1 profile says %s, CSS 2.1 grammar says %s for %s: %r' % (real, ref, name, w),
                'fields': {'symptom': direction, 'feature': fs[0] if fs else None, 'features': '+'.join(fs),
                           'name': name, 'value': w}}
    if 'canonical' in inp:
        pname, value, canon = inp['property'], inp['value'], inp['canonical']
        cssutils.log.raiseExceptions = False
        a = cssutils.parseString('a{%s:%s}' % (pname, value), validate=True).cssRules[0].style.getProperties(all=True)
        b = cssutils.parseString('a{%s:%s}' % (pname, canon), validate=True).cssRules[0].style.getProperties(all=True)
        n = cssutils.parseString('a{%s:%s}' % (pname, value), validate=False)
        v = cssutils.parseString('a{%s:%s}' % (pname, value), validate=True)
        problems = []
        if a and b and 'omitLeadingZero' in inp:
            cssutils.ser.prefs.omitLeadingZero = inp['omitLeadingZero']
            flipped = a[0].valid
            cssutils.ser.prefs.useDefaults()
            if flipped != b[0].valid:
                problems.append('preference: valid is %r with omitLeadingZero=%s, %r by default'
                                % (flipped, inp['omitLeadingZero'], b[0].valid))
        if len(a) != len(b):
            problems.append('declaration count %d vs %d' % (len(a), len(b)))
        elif a:
            if a[0].valid != b[0].valid:
                problems.append('valid %r vs canonical %r' % (a[0].valid, b[0].valid))
            if a[0].value.lower() != b[0].value.lower():
                problems.append('value %r vs canonical %r' % (a[0].value, b[0].value))
            c = cssutils.css.Property(pname, value)
            st = cssutils.css.CSSStyleDeclaration()
            st.setProperty(pname, value)
            d = st.getProperties(all=True)[0]
            if not (c.valid == d.valid == b[0].valid):
                problems.append('provenance: parsed %r constructed %r set %r' % (b[0].valid, c.valid, d.valid))
        if n.cssText != v.cssText:
            problems.append('validate on/off changes the output')
        if not problems:
            return {'reproduced': False, 'detail': 'spelling %r behaves like canonical %r' % (value, canon)}
        return {'reproduced': True, 'detail': '%s: %r (canonical %r): %s' % (pname, value, canon, '; '.join(problems)),
                'fields': {'symptom': 'spelling', 'property': pname, 'value': value, 'problem': problems[0].split()[0]}}
    if inp.get('aggregate'):
        cssutils.css.Property.valid = property(lambda self: self._sx_valid)
        sheet = cssutils.parseString(AGG_SHEET, validate=False)
        props = _all_props(sheet)
        for p, b in zip(props, inp['verdicts']):
            p._sx_valid = b
        got, want = sheet.valid, all(inp['verdicts'])
        if got == want:
            return {'reproduced': False, 'detail': 'sheet.valid is the conjunction'}
        return {'reproduced': True,
                'detail': 'sheet %r with per-declaration verdicts %r: sheet.valid is %r, conjunction is %r'
                          % (AGG_SHEET, inp['verdicts'], got, want),
                'fields': {'symptom': 'aggregate',
                           'invalid_declarations': '+'.join(sorted({AGG_KINDS[i] for i, v in enumerate(inp['verdicts']) if not v}))}}
    if 'name' in inp:
        prof = cssutils.profile
        name = inp['name']
        r = prof.validate(name, 'x')
        return {'reproduced': False, 'detail': 'lookup case %r -> %r (not independently replayable with verdict bits)' % (name, r)}
    return {'reproduced': False, 'detail': 'unknown case'}
