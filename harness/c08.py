"""C08 - Sheet/import encoding precedence; serialised bytes decodable and lossless.

ladder   Import chains of depth <= 3 over a virtual fetcher.  For the top parse and for every edge the solver chooses:
         explicit override given or not, transport charset given or not, content marker (BOM / @charset / none), parent
         marker, bytes or text delivery, fetcher result None / (None, None) / data - over four encodings that decode a
         probe byte string to four different texts.  Every imported sheet must report the encoding the documented ladder
         gives (override > transport > BOM/@charset > referring sheet > utf-8, an override governing the whole chain) and
         hold the probe decoded with exactly that encoding; sheet.encoding always equals its @charset rule.
lossless A sheet with a symbolic character (all of Unicode) at one content position (identifier, string, url, comment,
         attribute value, property name, unknown at-rule) gets every modelled target encoding through sheet.encoding;
         cssText must be bytes that decode in that encoding without error, and decoding + reparsing must give the same DOM
         projection and report the same encoding (z3 validity over the character); never an exception.
"""
from . import common, projection

PROP = 'C08'

ENCODINGS = ['utf-8', 'iso-8859-1', 'iso-8859-15', 'koi8-r']
PROBE = b'\xc3\xa4'           # valid in all four, four different texts
CONTENT = ['none', 'bom', 'charset']
RESULT = ['data', 'none', 'nonepair']


def marker(kind, enc):
    """(prefix bytes, encoding it declares or None)"""
    if kind == 'bom':
        return b'\xef\xbb\xbf', 'utf-8'
    if kind == 'charset':
        return ('@charset "%s";' % enc).encode('ascii'), enc
    return b'', None


def build(choice, depth):
    """-> (top data, top override, files {url: (transport, data or None-ish)}, expectations)"""
    files = {}
    expect = {}       # name -> dict(encoding=..., text=..., resolved=bool)
    names = ['t', 'b', 'c', 'd'][:depth + 1]

    def content_of(i):
        name = names[i]
        kind = CONTENT[choice['%s_content' % name]]
        if kind == 'bom' and i and choice['%s_text' % name]:
            kind = 'none'         # a byte order mark belongs to byte content
        enc = ENCODINGS[choice['%s_cenc' % name]]
        pre, declared = marker(kind, enc)
        imp = b''
        if i + 1 < len(names):
            imp = ('@import "%s.css";' % names[i + 1]).encode('ascii')
        data = pre + imp + b'.' + name.encode('ascii') + b'{content:"' + PROBE + b'"}'
        return data, declared

    override = ENCODINGS[choice['override'] - 1] if choice['override'] else None
    # top sheet: parseString(bytes, encoding=override)
    data0, declared0 = content_of(0)
    top_enc = override or declared0 or 'utf-8'
    expect['t'] = {'encoding': top_enc, 'resolved': True,
                   'inconsistent': data0.startswith(b'\xef\xbb\xbf') and top_enc != 'utf-8'}
    parent = override or declared0      # what the referring sheet is known to use (None: unknown)
    ok = True
    for i in range(1, len(names)):
        name = names[i]
        data, declared = content_of(i)
        transport = ENCODINGS[choice['%s_transport' % name] - 1] if choice['%s_transport' % name] else None
        as_text = bool(choice['%s_text' % name])
        result = RESULT[choice['%s_result' % name]]
        if override:
            enc = override
        elif transport:
            enc = transport
        elif declared:
            enc = declared
        elif parent:
            enc = parent
        else:
            enc = 'utf-8'
        if as_text:
            # text delivery: the characters as given (one per byte of the probe)
            payload = data.decode('iso-8859-1')
        else:
            payload = data
        # a BOM under a higher-ranking non-UTF-8 encoding is mis-declared content: nothing to check from here on
        inconsistent = data.startswith(b'\xef\xbb\xbf') and enc != 'utf-8'
        files['http://h/%s.css' % name] = (transport, payload, result)
        resolved = ok and result == 'data'
        expect[name] = {'encoding': enc, 'resolved': resolved, 'as_text': as_text, 'inconsistent': inconsistent}
        if not resolved:
            ok = False
        parent = enc
    return data0, override, files, expect


def check_ladder(cssutils, choice, depth):
    data0, override, files, expect = build(choice, depth)
    asked = []

    def fetcher(url):
        asked.append(url)
        if url not in files:
            return None
        transport, payload, result = files[url]
        if result == 'none':
            return None
        if result == 'nonepair':
            return (None, None)
        return (transport, payload)
    cssutils.log.raiseExceptions = False
    parser = cssutils.CSSParser(validate=False, fetcher=fetcher)
    try:
        sheet = parser.parseString(data0, encoding=override, href='http://h/t.css')
    except UnicodeDecodeError:
        return None, 'undecodable'          # the probe is valid in all four; a BOM'd top under an override may not be
    except Exception as e:
        return 'parse raised %s: %s' % (type(e).__name__, str(e)[:100]), 'raised'
    names = ['t', 'b', 'c', 'd'][:depth + 1]
    cur = sheet
    for name in names:
        exp = expect[name]
        if exp.get('inconsistent'):
            return None, 'inconsistent'
        if name != 't':
            imp = [r for r in cur.cssRules if r.type == r.IMPORT_RULE]
            if not imp:
                return 'sheet %s lost its @import rule' % name, 'x'
            rule = imp[0]
            if not exp['resolved']:
                if rule.hrefFound:
                    return '@import of %s reported as found although the fetcher gave nothing' % name, 'x'
                break
            if not rule.hrefFound:
                return '@import "%s.css" not resolved although the fetcher returned data' % name, 'x'
            cur = rule.styleSheet
        first = cur.cssRules[0] if len(cur.cssRules) else None
        charset = first.encoding if first is not None and first.type == first.CHARSET_RULE else None
        if cur.encoding != (charset or 'utf-8'):
            return 'sheet %s: encoding %r, @charset rule %r' % (name, cur.encoding, charset), 'x'
        if cur.encoding.lower().replace('utf-8-sig', 'utf-8') != exp['encoding']:
            return 'sheet %s reports encoding %r, the ladder gives %r' % (name, cur.encoding, exp['encoding']), 'x'
        style = [r for r in cur.cssRules if r.type == r.STYLE_RULE]
        if not style:
            return 'sheet %s has no style rule' % name, 'x'
        got = style[0].style.getProperty('content').propertyValue[0].value
        want = PROBE.decode('iso-8859-1' if exp.get('as_text') else exp['encoding'])
        if got != want:
            return 'sheet %s holds %r, decoding the probe with %r gives %r' % (name, got, exp['encoding'], want), 'x'
        # the serialisation is decodable with the reported encoding
        try:
            cur.cssText.decode(cur.encoding)
        except Exception as e:
            return 'cssText of sheet %s does not decode with %r: %s' % (name, cur.encoding, type(e).__name__), 'x'
    return None, 'checked'


def ladder_vars(depth, fresh_int, fixed):
    ch = {}

    def add(key, n):
        ch[key] = fixed[key] if key in fixed else fresh_int(key, 0, n - 1)
    add('override', len(ENCODINGS) + 1)
    names = ['t', 'b', 'c', 'd'][:depth + 1]
    for i, name in enumerate(names):
        add('%s_content' % name, len(CONTENT))
        add('%s_cenc' % name, len(ENCODINGS))
        if i:
            add('%s_transport' % name, len(ENCODINGS) + 1)
            add('%s_text' % name, 2)
            add('%s_result' % name, len(RESULT))
    return ch


def run_ladder(depth, override, t_content, limit):
    cssutils = common.setup_lifted()
    from sx.core import fresh_int, eng
    import z3

    def fn():
        fixed = {'override': override, 't_content': t_content}
        ch = ladder_vars(depth, fresh_int, fixed)
        inputs = dict(ch, depth=depth)
        common.set_inputs(inputs)
        free = [v for k, v in ch.items() if k not in fixed]
        if limit is not None:
            eng().assume(z3.Sum([z3.If(v.e != 0, 1, 0) for v in free]) <= limit)
        # an encoding choice only matters with an @charset marker
        for name in ['t', 'b', 'c', 'd'][:depth + 1]:
            c, e = ch['%s_content' % name], ch['%s_cenc' % name]
            if not isinstance(c, int) and not isinstance(e, int):
                eng().assume(z3.Or(c.e == 2, e.e == 0))
        concrete = {k: int(v) for k, v in ch.items()}
        info = {'in': inputs, 'tags': ['ladder']}
        problem, tag = check_ladder(cssutils, concrete, depth)
        info['tags'].append('ladder:' + tag)
        if problem:
            info['note'] = problem
            return False, info
        return True, info

    return common.explore(fn, 'ladder(depth=%d,override=%d,top=%s,limit=%s)' % (depth, override, CONTENT[t_content], limit),
                          path_timeout_s=120.0, max_cex=60)


# ---------------------------------------------------------------------- lossless serialisation

KERNELS = [
    ('class', '.a', '{b:c}'), ('type', 'a', '{b:c}'), ('id', '#a', '{b:c}'), ('string', 'a{b:"x', '"}'),
    ('url', 'a{b:url(x', ')}'), ('url-dq', 'a{b:url("x', '")}'), ('comment', '/*x', '*/a{b:c}'), ('attr', 'a[b="x', '"]{c:d}'),
    ('propname', 'a{b', ':c}'), ('value-ident', 'a{b:c', '}'), ('unknown', '@x y', ';'), ('import', '@import "x', '.css";'),
    ('namespace', '@namespace p "x', '";p|a{b:c}'), ('media', '@media tv{.a', '{b:c}}'), ('page', '@page{margin:0;@top-left{content:"x', '"}}'),
    ('fontface', '@font-face{font-family:"x', '"}'), ('escape', 'a{b:\\', ' c}'),
]
TARGETS = ['ascii', 'iso-8859-1', 'utf-8', 'utf-16']


def lossless(cssutils, text, enc, log):
    """None if not applicable (malformed source), else (ok: bool / SymBool, why)"""
    from .c03 import lexically_complete
    parser = cssutils.CSSParser(validate=False, fetcher=lambda url: None)
    log.clear()
    s1 = parser.parseString(text, href='')
    if log.problems() or not lexically_complete(cssutils, text):
        return None
    s1.encoding = enc
    p1 = projection.sheet(s1)
    data = s1.cssText
    back = data.decode(enc)
    log.clear()
    s2 = parser.parseString(back, href='')
    if log.problems():
        return False, 'the decoded serialisation does not parse cleanly'
    if s2.encoding != s1.encoding:
        return False, 'reparsed sheet reports encoding %r, the serialised one %r' % (s2.encoding, s1.encoding)
    # and through the bytes interface (BOM / @charset detection)
    s3 = parser.parseString(data, href='')
    p2, p3 = projection.sheet(s2), projection.sheet(s3)
    a = projection.eq(p1, p2)
    if a is False:
        return False, 'DOM differs after decode + reparse: %s' % _safe_diff(p1, p2)
    b = projection.eq(p1, p3)
    if b is False:
        return False, 'DOM differs when the bytes are parsed: %s' % _safe_diff(p1, p3)
    from sx.core import sym_and
    return sym_and(a, b), 'content differs after the round trip through %s' % enc


def _safe_diff(a, b):
    try:
        return projection.diff(a, b)
    except BaseException:
        return 'structure'


def run_lossless(kindex, enc, n):
    cssutils = common.setup_lifted()
    from sx.symstr import fresh_str, reduced_alphabet
    from sx.mask import Mask
    from .c03 import _StubLogView
    name, prefix, suffix = KERNELS[kindex]
    amask = reduced_alphabet().minus(Mask.rng(0xD800, 0xDFFF))
    small = name == 'namespace'
    if small:
        # the URI becomes a set / dictionary key and has to be realised: one character of every lexical class
        from .c11 import SMALL_ALPHABET
        amask = Mask.of(SMALL_ALPHABET)
    cssutils.ser.prefs.keepEmptyRules = True
    log = _StubLogView(common.LOGSTUB)

    def fn():
        s = fresh_str(n, mask=amask)
        text = prefix + s + suffix
        inputs = {'kernel': name, 'text': text, 'enc': enc}
        common.set_inputs(inputs)
        info = {'in': inputs, 'tags': []}
        cssutils.log.raiseExceptions = False
        try:
            r = lossless(cssutils, text, enc, log)
        except Exception as e:
            info['note'] = 'raised %s: %s' % (type(e).__name__, _msg(e))
            info['tags'].append('raised')
            return False, info
        if r is None:
            info['tags'].append('malformed-source')
            return True, info
        info['tags'].append('wellformed-source')
        ok, why = r
        if ok is False:
            info['note'] = why
            return False, info
        info['note'] = why
        return ok, info

    return common.explore(fn, 'lossless(%s,%s,n=%d)' % (name, enc, n), path_timeout_s=90.0, realise_cap=4096 if small else 64)


def _msg(e):
    try:
        return str(e)[:120]
    except BaseException:
        return '<symbolic message>'


def jobs(tier):
    out = []
    for k in range(len(KERNELS)):
        for enc in TARGETS:
            out.append(('harness.c08', 'run_lossless', dict(kindex=k, enc=enc, n=1)))
            if tier != 'quick' and enc in ('ascii', 'iso-8859-1'):
                out.append(('harness.c08', 'run_lossless', dict(kindex=k, enc=enc, n=2)))
    for ov in range(len(ENCODINGS) + 1):
        for tc in range(len(CONTENT)):
            out.append(('harness.c08', 'run_ladder', dict(depth=1, override=ov, t_content=tc, limit=None if tier != 'quick' else 4)))
            out.append(('harness.c08', 'run_ladder', dict(depth=2, override=ov, t_content=tc, limit=3 if tier == 'quick' else 5)))
            if tier != 'quick':
                out.append(('harness.c08', 'run_ladder', dict(depth=3, override=ov, t_content=tc, limit=3)))
    return out


def main(tier):
    rep = common.Report(PROP, tier)
    results = common.run_jobs(jobs(tier), job_timeout_s=900 if tier == 'quick' else 4000)
    rep.add_results(results)
    cases = []
    for r in results:
        cases.extend(r['cex'])
    rep.handle_counterexamples(cases)
    rep.bounds = {'ladder': 'import chains of depth <= %d over encodings %r; per sheet: content marker %r (declared encoding any of the '
                            'four), per edge: transport charset or none, bytes or text, fetcher result %r; top parse with or without '
                            'override; override and top marker in full, of the remaining choices at most a stated number off the '
                            'first menu entry (%s)' % (2 if tier == 'quick' else 3, ENCODINGS, CONTENT, RESULT,
                                                       'depth 1: 4, depth 2: 3' if tier == 'quick' else 'depth 1: all, depth 2: 5, depth 3: 3'),
                  'lossless': '%d content positions x target encodings %r x every character string of length %s over all of Unicode '
                              '(reduced alphabet)' % (len(KERNELS), TARGETS, '1' if tier == 'quick' else '<= 2 (ascii, iso-8859-1)')}
    rep.assumptions = ['codec models sx/pycodecs.py (ascii, latin-1, utf-8, utf-16) incl. the escapecss handler',
                       'the ladder jobs are finite-choice (solver-driven enumeration); the lossless jobs quantify the characters']
    rep.outside = ['target encodings other than the four modelled ones', 'the namespace URI position ranges over a 48-character alphabet (harness/c11.py SMALL_ALPHABET)', 'parseUrl / parseFile entry points']
    rep.witness_required = ['ladder:checked', 'wellformed-source', 'malformed-source']
    return rep.finish()


# ---------------------------------------------------------------------- replay (unlifted)

class _Log:
    def __init__(self):
        import logging
        self.records = []
        outer = self

        class H(logging.Handler):
            def emit(self, record):
                outer.records.append(record.levelname.lower())
        self.handler = H()

    def clear(self):
        del self.records[:]

    def problems(self):
        return [r for r in self.records if r in ('warning', 'error', 'critical')]


def replay(case):
    import logging
    import cssutils
    inp = case['inputs']
    if 'kernel' in inp:
        log = _Log()
        lg = logging.getLogger('verif-c08')
        lg.handlers[:] = [log.handler]
        lg.setLevel(logging.DEBUG)
        lg.propagate = False
        cssutils.log.setLog(lg)
        cssutils.log.raiseExceptions = False
        cssutils.ser.prefs.keepEmptyRules = True
        text, enc = inp['text'], inp['enc']
        try:
            r = lossless_concrete(cssutils, text, enc, log)
        except Exception as e:
            return {'reproduced': True, 'detail': 'sheet %r with encoding %r: raised %r' % (text, enc, e),
                    'fields': {'symptom': 'raises', 'kernel': inp['kernel'], 'enc': enc, 'exc': type(e).__name__}}
        if r is None:
            return {'reproduced': False, 'detail': 'lossless (or malformed source)'}
        return {'reproduced': True, 'detail': 'sheet %r with encoding %r: %s' % (text, enc, r),
                'fields': dict(features(inp['kernel'], text), symptom='lossy', kernel=inp['kernel'], enc=enc,
                               representable=_representable(text, enc))}
    cssutils.log.setLevel(60)
    depth = inp['depth']
    choice = {k: v for k, v in inp.items() if k != 'depth'}
    problem, tag = check_ladder(cssutils, choice, depth)
    if not problem:
        return {'reproduced': False, 'detail': 'ladder respected (%s)' % tag}
    data0, override, files, expect = build(choice, depth)
    kind = ('encoding' if 'the ladder gives' in problem else 'text' if 'decoding the probe' in problem else
            'resolve' if 'resolved' in problem or 'found' in problem else 'other')
    return {'reproduced': True,
            'detail': 'top %r (override %r), files %r: %s' % (data0, override, files, problem),
            'fields': {'symptom': 'ladder', 'kind': kind, 'override': bool(override),
                       'text_delivery': any(v for k, v in choice.items() if k.endswith('_text')),
                       'nonepair': any(RESULT[v] == 'nonepair' for k, v in choice.items() if k.endswith('_result')),
                       'bom': any(CONTENT[v] == 'bom' for k, v in choice.items() if k.endswith('_content'))}}


def features(kernel, text):
    """the input features the C03 findings are told apart by (same defects, seen through the byte interface)"""
    import re
    pre, suf = next((p, q) for n, p, q in KERNELS if n == kernel)
    hole = text[len(pre):len(text) - len(suf)] if len(text) >= len(pre) + len(suf) else text
    special = False
    for m in re.finditer(r'\\([0-9a-fA-F]{1,6})|\\([^\n\r\f0-9a-fA-F])', text):
        c = chr(int(m.group(1), 16)) if m.group(1) and int(m.group(1), 16) <= 0x10FFFF else (m.group(2) or '')
        if c and not (c.isascii() and (c.isalpha() or c == '_')) and ord(c) < 0x80:
            special = True
    return {
        'special_escape': special,
        'comment_linebreak': kernel == 'comment' and any(c in hole for c in '\n\r\f'),
        'py_whitespace': any(c.isspace() and c not in ' \t\r\n\f' for c in text),
        'string_backslash': kernel in ('string', 'url', 'url-dq', 'attr', 'import', 'namespace', 'page', 'fontface') and '\\' in hole,
    }


def _representable(text, enc):
    try:
        text.encode(enc)
        return True
    except Exception:
        return False


def lossless_concrete(cssutils, text, enc, log):
    """None if fine, else a description"""
    from .c03 import lexically_complete
    parser = cssutils.CSSParser(validate=False, fetcher=lambda url: None)
    log.clear()
    s1 = parser.parseString(text)
    if log.problems() or not lexically_complete(cssutils, text):
        return None
    s1.encoding = enc
    p1 = projection.sheet(s1)
    data = s1.cssText
    back = data.decode(enc)
    log.clear()
    s2 = parser.parseString(back)
    if log.problems():
        return 'serialised as %r, which does not parse cleanly' % data
    if s2.encoding != s1.encoding:
        return 'reparsed sheet reports encoding %r, the serialised one %r' % (s2.encoding, s1.encoding)
    s3 = parser.parseString(data)
    for what, s in (('decode + reparse', s2), ('parsing the bytes', s3)):
        p = projection.sheet(s)
        if p != p1:
            return 'serialised as %r; after %s: %s' % (data, what, projection.diff(p1, p))
    return None
