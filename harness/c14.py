"""C14 - The profile registry's verdicts depend on its contents, not its history.

Histories of length <= L over the operation menu (the operation at each step is a solver variable, so
the engine enumerates every history; leverage ~ 1, bounded exhaustive).  After each history h the
registry's content c(h) (registered profile names in order, with their raw definitions) is computed
by a three-line reference; a fresh Profiles() is brought to the same content by the canonical history
(remove the missing built-ins, add the custom profiles in order).  Assertions:
  * profiles, knownNames, propertiesByProfile() equal;
  * for every registered (profile, property) the compiled patterns are equal as strings or, failing
    that, language-equivalent (RX, z3 regex theory, unbounded in the value length);
  * a battery of validate / validateWithProfile calls agrees;
  * removing an unknown profile raises NoSuchProfileException and changes nothing;
  * restricting defaultProfiles changes only the reported profile, never the verdict.
"""
import re

from . import common

PROP = 'C14'

CUSTOM = {
    'A': ('pA', {'-a-x': '{aint}|auto', '-a-w': '{int}'}, {'aint': r'[0-9]+'}),
    'B': ('pB', {'-b-y': '{int}|{aint}x'}, {'int': r'[a-f]+', 'aint': r'[xyz]+'}),
    'C': ('pC', {'-c-z': 'left|right', 'color': 'chartreuse2'}, None),
}
BUILTIN_REMOVABLE = 'CSS Text Level 3'

OPS = ['addA', 'addB', 'addC', 'addAB', 'rmA', 'rmB', 'rmC', 'rmUnknown', 'rmBuiltin', 'default1', 'defaultNone']

BATTERY = [('-a-x', '12'), ('-a-x', 'xy'), ('-a-x', 'auto'), ('-a-w', '12'), ('-a-w', 'ab'), ('-b-y', 'ab'),
           ('-b-y', '12'), ('-b-y', 'xyx'), ('-b-y', '12x'), ('-c-z', 'left'), ('color', 'chartreuse2'),
           ('color', 'red'), ('z-index', '12'), ('z-index', 'ab'), ('z-index', 'auto'), ('orphans', '3'),
           ('text-shadow', 'none'), ('float', 'left'), ('nope', 'x')]


def apply_op(prof, op, NoSuch):
    """returns 'ok' / 'rejected'"""
    try:
        if op in ('addA', 'addB', 'addC'):
            name, props, macros = CUSTOM[op[-1]]
            prof.addProfile(name, dict(props), dict(macros) if macros else None)
        elif op == 'addAB':
            prof.addProfiles([(CUSTOM['A'][0], dict(CUSTOM['A'][1]), dict(CUSTOM['A'][2])),
                              (CUSTOM['B'][0], dict(CUSTOM['B'][1]), dict(CUSTOM['B'][2]))])
        elif op in ('rmA', 'rmB', 'rmC'):
            prof.removeProfile(CUSTOM[op[-1]][0])
        elif op == 'rmUnknown':
            prof.removeProfile('no such profile')
        elif op == 'rmBuiltin':
            prof.removeProfile(BUILTIN_REMOVABLE)
        elif op == 'default1':
            prof.defaultProfiles = prof.profiles[0] if prof.profiles else None
        elif op == 'defaultNone':
            prof.defaultProfiles = None
        return 'ok'
    except NoSuch:
        return 'rejected'


def model_content(history):
    """reference: which profiles are registered after the history (custom ones in order of latest add);
    an op that the reference rejects (removing what is not there) leaves the content unchanged.
    Adding a profile that is already present is outside the property (returns None)."""
    customs = []
    builtin_removed = False
    for op in history:
        if op in ('addA', 'addB', 'addC', 'addAB'):
            for k in (['A', 'B'] if op == 'addAB' else [op[-1]]):
                if k in customs:
                    return None
                customs.append(k)
        elif op in ('rmA', 'rmB', 'rmC'):
            if op[-1] in customs:
                customs.remove(op[-1])
        elif op == 'rmBuiltin':
            builtin_removed = True
    return customs, builtin_removed


def snapshot(prof):
    pats = {}
    for pname, props in prof._profilesProperties.items():
        for k, v in props.items():
            pats[(pname, k)] = (v.pattern, int(v.flags) & int(re.I)) if hasattr(v, 'pattern') else ('<callable>', 0)
    return {
        'profiles': list(prof.profiles),
        'knownNames': sorted(prof.knownNames),
        'byProfile': list(prof.propertiesByProfile()) if prof.profiles else [],
        'patterns': pats,
    }


def battery(prof):
    out = []
    for name, value in BATTERY:
        try:
            out.append((prof.validate(name, value), prof.validateWithProfile(name, value)[0]))
        except Exception as e:
            out.append(('EXC', type(e).__name__))
    return out


def compare(cssutils, prof, history):
    """None if prof behaves like a fresh registry with the same content, else a description"""
    import cssutils.profiles as pm
    content = model_content(history)
    if content is None:
        return None
    customs, builtin_removed = content
    fresh = pm.Profiles(log=cssutils.log)
    if builtin_removed:
        fresh.removeProfile(BUILTIN_REMOVABLE)
    for k in customs:
        name, props, macros = CUSTOM[k]
        fresh.addProfile(name, dict(props), dict(macros) if macros else None)
    a, b = snapshot(prof), snapshot(fresh)
    for key in ('profiles', 'knownNames', 'byProfile'):
        if a[key] != b[key]:
            return '%s differs: %r vs fresh %r' % (key, a[key][-6:], b[key][-6:])
    if set(a['patterns']) != set(b['patterns']):
        return 'registered (profile, property) pairs differ: %r' % sorted(set(a['patterns']) ^ set(b['patterns']))[:4]
    for key, (pa, fa) in a['patterns'].items():
        pb, fb = b['patterns'][key]
        if (pa, fa) != (pb, fb):
            # language equivalence, unbounded (RX)
            from rx import translate as T
            try:
                ra, rb = T.to_z3(pa, fa | re.U), T.to_z3(pb, fb | re.U)
                w = T.witness(ra, rb, timeout_ms=20000) or T.witness(rb, ra, timeout_ms=20000)
            except TimeoutError:
                return 'pattern of %r differs and equivalence is undecided' % (key,)
            if w is not None:
                return 'pattern of %r accepts a different language; witness value %r' % (key, w)
    ba, bb = battery(prof), battery(fresh)
    if ba != bb:
        i = [x != y for x, y in zip(ba, bb)].index(True)
        return 'verdict of %r differs: %r vs fresh %r' % (BATTERY[i], ba[i], bb[i])
    return None


def run_histories(L, first=None):
    cssutils = common.setup_lifted()
    from sx.core import fresh_int
    import cssutils.profiles as pm
    NoSuch = pm.NoSuchProfileException

    def fn():
        prof = pm.Profiles(log=cssutils.log)
        idx = [fresh_int('op%d' % i, 0, len(OPS) - 1) for i in range(L)]
        inputs = {'ops': list(idx)}
        common.set_inputs(inputs)
        info = {'in': inputs, 'tags': []}
        history = []
        for i, x in enumerate(idx):
            k = int(x) if not (i == 0 and first is not None) else first
            if i == 0 and first is not None:
                from sx.core import eng
                eng().assume(x.e == first) if hasattr(x, 'e') else None
            op = OPS[k]
            before = snapshot(prof)
            bbat = battery(prof)
            try:
                r = apply_op(prof, op, NoSuch)
            except Exception as e:
                if model_content(history + [op]) is None:
                    info['tags'].append('outside:duplicate-add')
                    return True, info
                info['note'] = 'history %s: %s raised %s: %s' % (history, op, type(e).__name__, str(e)[:100])
                return False, info
            if r == 'rejected':
                info['tags'].append('rejected')
                if snapshot(prof) != before or battery(prof) != bbat:
                    info['note'] = 'history %s: rejected %s changed the registry' % (history, op)
                    return False, info
                if op != 'rmUnknown' and model_content(history + [op]) is not None and \
                        not _reference_rejects(history, op):
                    info['note'] = 'history %s: %s was rejected although the profile is registered' % (history, op)
                    return False, info
            elif op == 'rmUnknown':
                info['note'] = 'removing an unknown profile was accepted'
                return False, info
            history.append(op)
            if model_content(history) is None:
                info['tags'].append('outside:duplicate-add')
                return True, info
            try:
                d = compare(cssutils, prof, history)
            except Exception as e:
                info['note'] = 'history %s: observing the registry raised %s: %s' % (history, type(e).__name__, str(e)[:100])
                return False, info
            if d:
                info['note'] = 'history %s: %s' % (history, d)
                return False, info
        info['tags'].append('history-ok')
        return True, info

    return common.explore(fn, 'histories(L=%d,first=%s)' % (L, first), path_timeout_s=120.0)


def _reference_rejects(history, op):
    c = model_content(history)
    if c is None:
        return False
    customs, builtin_removed = c
    if op in ('rmA', 'rmB', 'rmC'):
        return op[-1] not in customs
    if op == 'rmBuiltin':
        return builtin_removed
    return False


def jobs(tier):
    L = 3 if tier == 'quick' else 4
    return [('harness.c14', 'run_histories', dict(L=L, first=k)) for k in range(len(OPS))] + \
        [('harness.c14', 'run_histories', dict(L=l)) for l in (1, 2)]


def main(tier):
    rep = common.Report(PROP, tier)
    results = common.run_jobs(jobs(tier))
    rep.add_results(results)
    cases = []
    for r in results:
        cases.extend(r['cex'])
    rep.handle_counterexamples(cases)
    L = 3 if tier == 'quick' else 4
    rep.bounds = {'histories': 'all %d^%d histories over %s' % (len(OPS), L, OPS),
                  'pattern comparison': 'string equality, else z3 regex equivalence (unbounded value length)',
                  'battery': BATTERY}
    rep.assumptions = ['content = registered profiles (custom ones in order of their latest addition); adding a '
                       'profile that is already registered is outside the property and not explored further',
                       'finite-choice throughout: the solver drives an exhaustive enumeration (leverage ~ 1); only the '
                       'pattern-language comparison is an unbounded solver claim']
    rep.outside = ['histories longer than %d' % L, 'profiles other than the three custom ones']
    rep.witness_required = ['history-ok', 'rejected']
    return rep.finish()


# ---------------------------------------------------------------------- replay (unlifted)

def replay(case):
    import cssutils
    import cssutils.profiles as pm
    cssutils.log.setLevel(60)
    ops = [OPS[i] for i in case['inputs']['ops']]
    prof = pm.Profiles(log=cssutils.log)
    history = []
    for op in ops:
        before, bbat = snapshot(prof), battery(prof)
        try:
            r = apply_op(prof, op, pm.NoSuchProfileException)
        except Exception as e:
            if model_content(history + [op]) is None:
                return {'reproduced': False, 'detail': 'duplicate add: outside the property'}
            return {'reproduced': True, 'detail': 'history %s then %s raised %r' % (history, op, e),
                    'fields': {'symptom': 'raises', 'op': op, 'history': ' '.join(history), 'exc': type(e).__name__}}
        if r == 'rejected':
            if snapshot(prof) != before or battery(prof) != bbat:
                return {'reproduced': True, 'detail': 'history %s: rejected %s changed the registry' % (history, op),
                        'fields': {'symptom': 'rejected-changed', 'op': op, 'history': ' '.join(history)}}
            if op != 'rmUnknown' and model_content(history + [op]) is not None and not _reference_rejects(history, op):
                return {'reproduced': True, 'detail': 'history %s: %s rejected although registered' % (history, op),
                        'fields': {'symptom': 'wrongly-rejected', 'op': op, 'history': ' '.join(history)}}
        elif op == 'rmUnknown':
            return {'reproduced': True, 'detail': 'removing an unknown profile was accepted',
                    'fields': {'symptom': 'unknown-accepted'}}
        history.append(op)
        if model_content(history) is None:
            return {'reproduced': False, 'detail': 'duplicate add: outside the property'}
        try:
            d = compare(cssutils, prof, history)
        except Exception as e:
            return {'reproduced': True, 'detail': 'history %s: observing the registry raised %r' % (history, e),
                    'fields': {'symptom': 'observe-raises', 'history': ' '.join(history), 'exc': type(e).__name__}}
        if d:
            return {'reproduced': True, 'detail': 'history %s: %s' % (history, d),
                    'fields': {'symptom': 'history-dependent', 'history': ' '.join(history), 'last': op,
                               'what': d.split(':')[0].split(' differs')[0]}}
    return {'reproduced': False, 'detail': 'history %s behaves like a fresh registry' % (ops,)}
