"""C20 - encutils reports the document encoding by the documented precedence.

chain    getEncodingInfo with the three extractors (getHTTPInfo, detectXMLEncoding, getMetaInfo) replaced by
         nondeterministic stubs (each answer a solver-driven choice from {None, 'e1', 'e2'}); the HTTP media
         type is a representative of each of the seven classes with every letter in symbolic case and a symbolic
         subtype character in the '+xml' forms, so the regex-based classification is decided, not sampled;
         response present or absent; text given as str.  Oracle: the documented table (this file, `expect`).
sniffer  detectXMLEncoding on text of length 0..5 with all characters symbolic, and on XML declarations with a
         symbolic 2-character encoding name: BOM wins, else declaration, else UTF-8 (includeDefault symbolic);
         the stream position is untouched (symbolic initial position).
"""
from . import common

PROP = 'C20'

MEDIA_TYPES = [
    ('application/xml', 'xmlapp'), ('application/xml-dtd', 'xmlapp'), ('application/a?+xml', 'xmlapp'),
    ('application/xml-external-parsed-entity', 'xmlapp'), ('text/xml', 'xmltext'), ('text/a?+xml', 'xmltext'),
    ('text/xml-external-parsed-entity', 'xmltext'), ('text/html', 'html'), ('text/css', 'css'),
    ('text/plain', 'text'), ('text/?', 'text'), ('image/png', 'other'), ('application/json', 'other'), (None, 'none'),
]
ENCS = [None, 'e1', 'e2']


def expect(cls, http, xml, meta, xml_default_applies):
    """documented table -> (encoding, mismatch, xml_seen, meta_seen)"""
    xml_seen = None
    meta_seen = None
    if cls == 'xmlapp':
        xml_seen = xml if xml else ('utf-8' if xml_default_applies else None)
    elif cls == 'html':
        xml_seen = xml
    if cls in ('html', 'text'):
        meta_seen = meta
    enc = http
    if not enc:
        if cls == 'xmlapp':
            enc = xml_seen
        elif cls == 'xmltext':
            enc = 'ascii'
        elif cls == 'html':
            enc = meta_seen or 'iso-8859-1'
        elif cls == 'css':
            enc = 'utf-8'
        elif cls == 'text':
            enc = 'iso-8859-1'
        else:
            enc = None
    known = [x for x in (http, xml_seen, meta_seen) if x]
    mismatch = len(set(known)) > 1
    return enc, mismatch, xml_seen, meta_seen


def run_chain(mi, with_response):
    common.setup_lifted()
    import encutils
    from sx.core import eng, fresh_int
    from sx.symstr import SymStr
    from sx.mask import Mask
    from sx import symre
    from .c13 import _cased
    mt, cls = MEDIA_TYPES[mi]

    def fn():
        e = eng()
        h = fresh_int('http', 0, 2)
        x = fresh_int('xml', 0, 2)
        m = fresh_int('meta', 0, 2)
        inputs = {'media_type_index': mi, 'http': h, 'xml': x, 'meta': m, 'response': with_response}
        common.set_inputs(inputs)
        info = {'in': inputs, 'tags': ['class:' + cls]}
        mtype = None
        if mt is not None:
            parts = []
            for chunk in mt.split('?'):
                parts.append(_cased(e, chunk, 'case'))
                parts.append(None)
            parts.pop()
            out = []
            for p in parts:
                if p is None:
                    v = e.fresh_int('sub', 97, 122)
                    out.append(SymStr([v]))
                else:
                    out.append(p)
            mtype = symre._join(out, False)
        inputs['media_type'] = mtype
        http, xml, meta = ENCS[int(h)], ENCS[int(x)], ENCS[int(m)]
        calls = {'xml_default': None}

        def stub_http(response, log=None):
            return mtype, http

        def stub_xml(fp, log=None, includeDefault=True):
            calls['xml_default'] = includeDefault
            return xml if xml else ('utf-8' if includeDefault else None)

        def stub_meta(text, log=None):
            return ('text/html' if meta else None), meta
        encutils.getHTTPInfo = stub_http
        encutils.detectXMLEncoding = stub_xml
        encutils.getMetaInfo = stub_meta
        try:
            if with_response:
                info_ = encutils.getEncodingInfo(response=object(), text='<p>x</p>')
                klass = cls if mt is not None else 'none'
            else:
                info_ = encutils.getEncodingInfo(text='<?xml version="1.0"?><a/>' if cls == 'xmlapp' else '<p>x</p>')
                klass = 'xmlapp' if cls == 'xmlapp' else 'none'
                http = None
        except Exception as ex:
            info['note'] = 'getEncodingInfo raised %s: %s' % (type(ex).__name__, str(ex)[:100])
            return False, info
        want = expect(klass if klass != 'none' else 'other', http, xml, meta, True)
        got = (info_.encoding, info_.mismatch)
        if got != (want[0], want[1]):
            info['note'] = 'class %s http=%r xml=%r meta=%r: got encoding=%r mismatch=%r, documented %r / %r' % (
                klass, http, xml, meta, got[0], got[1], want[0], want[1])
            return False, info
        if info_.encoding is not None and info_.encoding != info_.encoding.lower():
            info['note'] = 'encoding not lower-case: %r' % info_.encoding
            return False, info
        return True, info

    return common.explore(fn, 'chain(%s,response=%s)' % (mt, with_response), path_timeout_s=120.0)


BOMS = [([0x00, 0x00, 0xFE, 0xFF], 'utf_32_be'), ([0xFF, 0xFE, 0x00, 0x00], 'utf_32_le'), ([0xFE, 0xFF], 'utf_16_be'),
        ([0xFF, 0xFE], 'utf_16_le'), ([0xEF, 0xBB, 0xBF], 'utf-8')]


def sniff_expected(text, include_default):
    """reference for detectXMLEncoding on str / SymStr (comparisons may be symbolic)"""
    import re
    for bom, name in BOMS:
        if len(text) >= len(bom) and all(text[i] == chr(b) for i, b in enumerate(bom)):
            return name
    return None   # declaration / default handled by the caller (concrete shapes)


def run_sniff(n, decl):
    common.setup_lifted()
    import encutils
    from sx.core import fresh_bool, fresh_int
    from sx.symstr import fresh_str
    from sx.mask import Mask

    def fn():
        inc = bool(fresh_bool('includeDefault'))
        if decl:
            name = fresh_str(n, mask=Mask.of('abcdefghijklmnopqrstuvwxyzABCDEFGHIJKLMNOPQRSTUVWXYZ0123456789-_'))
            text = '<?xml version="1.0" encoding="' + name + '"?><a/>'
        else:
            text = fresh_str(n, mask=Mask.rng(0, 0xFFFF)) if n else ''
            name = None
        inputs = {'text': text, 'includeDefault': inc, 'decl': decl}
        common.set_inputs(inputs)
        info = {'in': inputs, 'tags': ['decl' if decl else 'raw']}
        try:
            got = encutils.detectXMLEncoding(text, None, inc)
        except Exception as ex:
            info['note'] = 'detectXMLEncoding raised %s: %s' % (type(ex).__name__, str(ex)[:100])
            info['tags'].append('raised')
            return False, info
        want = sniff_expected(text, inc)
        if want is None:
            if decl:
                want = name.lower()
            else:
                want = 'utf-8' if inc else None
                # a complete declaration cannot occur in <= 5 characters
        if want is None or got is None:
            ok = (want is None and got is None)
            if not ok:
                info['note'] = 'got %r, expected %r' % (got, want)
            return ok, info
        return (got == want), info

    return common.explore(fn, 'sniff(n=%d,decl=%s)' % (n, decl), path_timeout_s=120.0)


def run_position():
    common.setup_lifted()
    import encutils
    import io
    from sx.core import fresh_int

    def fn():
        pos = fresh_int('pos', 0, 12)
        which = fresh_int('doc', 0, 2)
        inputs = {'pos': pos, 'doc': which, 'position': True}
        common.set_inputs(inputs)
        info = {'in': inputs, 'tags': ['position']}
        docs = ['<?xml version="1.0" encoding="x"?><a/>', '\xff\xfeab cdef ghij', 'plain text document']
        fp = io.StringIO(docs[int(which)])
        p = int(pos)
        fp.seek(p)
        encutils.detectXMLEncoding(fp)
        if fp.tell() != p:
            info['note'] = 'stream position moved from %d to %d' % (p, fp.tell())
            return False, info
        return True, info

    return common.explore(fn, 'position')


def jobs(tier):
    out = []
    for i in range(len(MEDIA_TYPES)):
        out.append(('harness.c20', 'run_chain', dict(mi=i, with_response=True)))
    out.append(('harness.c20', 'run_chain', dict(mi=0, with_response=False)))
    out.append(('harness.c20', 'run_chain', dict(mi=7, with_response=False)))
    for n in range(0, 5 if tier == 'quick' else 6):
        out.append(('harness.c20', 'run_sniff', dict(n=n, decl=False)))
    for n in (1, 2) if tier == 'quick' else (1, 2, 3):
        out.append(('harness.c20', 'run_sniff', dict(n=n, decl=True)))
    out.append(('harness.c20', 'run_position', {}))
    return out


def main(tier):
    rep = common.Report(PROP, tier)
    results = common.run_jobs(jobs(tier))
    rep.add_results(results)
    cases = []
    for r in results:
        cases.extend(r['cex'])
    rep.handle_counterexamples(cases)
    rep.bounds = {'chain': '%d media-type representatives (letters in symbolic case, symbolic subtype character) x '
                           '3^3 extractor answers x response present/absent' % len(MEDIA_TYPES),
                  'sniffer': 'every text of length 0..%d (characters symbolic), declarations with symbolic encoding names '
                             'of length 1..%d, includeDefault symbolic, stream positions 0..12' % (
                                 4 if tier == 'quick' else 5, 2 if tier == 'quick' else 3)}
    rep.assumptions = ['getHTTPInfo / detectXMLEncoding / getMetaInfo are nondeterministic stubs in the chain harness '
                       '(html.parser, email.message and real decoders are environment)']
    rep.stubs = ['encutils.getHTTPInfo', 'encutils.detectXMLEncoding (chain only)', 'encutils.getMetaInfo', 'io.StringIO over SymStr']
    rep.outside = ['getMetaInfo, tryEncodings, getHTTPInfo themselves', 'byte documents']
    rep.witness_required = ['class:xmlapp', 'class:html', 'raw', 'decl', 'position']
    return rep.finish()


# ---------------------------------------------------------------------- replay (unlifted)

def replay(case):
    import encutils
    import io
    inp = case['inputs']
    if inp.get('position'):
        docs = ['<?xml version="1.0" encoding="x"?><a/>', '\xff\xfeab cdef ghij', 'plain text document']
        fp = io.StringIO(docs[inp['doc']])
        fp.seek(inp['pos'])
        encutils.detectXMLEncoding(fp)
        if fp.tell() == inp['pos']:
            return {'reproduced': False, 'detail': 'position kept'}
        return {'reproduced': True, 'detail': 'stream position moved from %d to %d' % (inp['pos'], fp.tell()),
                'fields': {'symptom': 'position'}}
    if 'decl' in inp:
        text, inc = inp['text'], inp['includeDefault']
        try:
            got = encutils.detectXMLEncoding(text, None, inc)
        except Exception as e:
            return {'reproduced': True, 'detail': 'detectXMLEncoding(%r) raised %r' % (text, e),
                    'fields': {'symptom': 'sniff-raises', 'exc': type(e).__name__, 'len': len(text)}}
        want = sniff_expected(text, inc)
        if want is None:
            if inp['decl']:
                import re
                want = re.search(r'encoding="([^"]+)"', text).group(1).lower()
            else:
                want = 'utf-8' if inc else None
        if got == want:
            return {'reproduced': False, 'detail': 'sniffer agrees'}
        return {'reproduced': True, 'detail': 'detectXMLEncoding(%r, includeDefault=%s) = %r, expected %r' % (text, inc, got, want),
                'fields': {'symptom': 'sniff', 'got': str(got), 'want': str(want)}}
    mt, cls = MEDIA_TYPES[inp['media_type_index']]
    mtype = inp['media_type']
    http, xml, meta = ENCS[inp['http']], ENCS[inp['xml']], ENCS[inp['meta']]
    saved = (encutils.getHTTPInfo, encutils.detectXMLEncoding, encutils.getMetaInfo)
    encutils.getHTTPInfo = lambda response, log=None: (mtype, http)
    encutils.detectXMLEncoding = lambda fp, log=None, includeDefault=True: xml if xml else ('utf-8' if includeDefault else None)
    encutils.getMetaInfo = lambda text, log=None: (('text/html' if meta else None), meta)
    try:
        if inp['response']:
            info_ = encutils.getEncodingInfo(response=object(), text='<p>x</p>')
            klass = cls if mt is not None else 'none'
        else:
            info_ = encutils.getEncodingInfo(text='<?xml version="1.0"?><a/>' if cls == 'xmlapp' else '<p>x</p>')
            klass = 'xmlapp' if cls == 'xmlapp' else 'none'
            http = None
    except Exception as e:
        return {'reproduced': True, 'detail': 'getEncodingInfo raised %r' % e, 'fields': {'symptom': 'chain-raises'}}
    finally:
        encutils.getHTTPInfo, encutils.detectXMLEncoding, encutils.getMetaInfo = saved
    want = expect(klass if klass != 'none' else 'other', http, xml, meta, True)
    if (info_.encoding, info_.mismatch) == (want[0], want[1]):
        return {'reproduced': False, 'detail': 'chain agrees'}
    return {'reproduced': True,
            'detail': 'media type %r (class %s), http=%r xml=%r meta=%r: encoding=%r mismatch=%r, documented %r / %r'
                      % (mtype, klass, http, xml, meta, info_.encoding, info_.mismatch, want[0], want[1]),
            'fields': {'symptom': 'chain', 'class': klass, 'what': 'encoding' if info_.encoding != want[0] else 'mismatch',
                       'http': str(http), 'xml': str(xml), 'meta': str(meta)}}
