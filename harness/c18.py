"""C18 - Value normalisation never changes what a value denotes.

numbers   a decimal literal  sign? digits* ('.' digits+)?  with every digit a solver variable and each
          length a solver-driven choice (<= 3+3 quick, <= 5+6 thorough), number / percentage / every unit:
          DimensionValue(literal).value and .dimension equal the exact rational and the unit; the serialised
          text (both settings of omitLeadingZero, symbolic) read back by an independent decimal reader denotes
          the same rational, the same unit (zero lengths may lose the unit), keeps the sign, and has no
          redundant zeros.  float()/'%f' are modelled exactly by sx/symnum.SymDec (<= 15 significant digits).
hash      six symbolic hex digits (each over all 22 hex characters): ColorValue('#rrggbb') and ('#rgb'):
          red/green/blue equal the arithmetic value, alpha 1; the serialised hash (minimizeColorHash symbolic)
          denotes the same three bytes and is shortened only when lossless.
rgb       rgb(r,g,b) / rgba(r,g,b,a) with symbolic integers and rgb(p%,p%,p%): channels per the documented
          formula, arguments kept in order by serialisation.
order     <= 3 components with separators space / comma / slash (solver-driven choices): item sequence and
          separators survive parse -> serialise -> parse.
"""
from . import common

PROP = 'C18'

UNITS = ['', '%', 'px', 'em', 'ex', 'in', 'cm', 'mm', 'pt', 'pc', 'deg', 's', 'Hz', 'x']
ZERO_UNITLESS = ('cm', 'mm', 'in', 'px', 'pc', 'pt', 'em', 'ex')
HEXD = '0123456789abcdefABCDEF'


def _digits(e, k, tag):
    return [e.fresh_int(tag, 48, 57) for _ in range(k)]


def read_decimal(s):
    """independent reader: text -> (sign, scaled integer N, number of fractional digits k, rest)
    for text = [+-]? digits* [. digits*] rest ; works on str and SymStr (digit values symbolic)"""
    i = 0
    n = len(s)
    sign = ''
    if i < n and (s[i] == '-' or s[i] == '+'):
        sign = '-' if s[i] == '-' else '+'
        i += 1
    N = 0
    k = 0
    nint = 0
    seen_dot = False
    first_int_digit = None
    last_frac_digit = None
    while i < n:
        c = s[i]
        if c == '.':
            if seen_dot:
                break
            seen_dot = True
            i += 1
            continue
        d = _digit_of(c)
        if d is None:
            break
        N = N * 10 + d
        if seen_dot:
            k += 1
            last_frac_digit = d
        else:
            nint += 1
            if first_int_digit is None:
                first_int_digit = d
        i += 1
    return sign, N, k, s[i:], nint, first_int_digit, last_frac_digit, seen_dot


def _digit_of(c):
    if isinstance(c, str):
        return ord(c) - 48 if '0' <= c <= '9' else None
    # SymStr of length 1
    from sx.core import SymInt, eng
    from sx.mask import Mask
    import z3
    v = c.ch[0]
    if isinstance(v, int):
        return v - 48 if 48 <= v <= 57 else None
    if eng().branch(z3.And(v >= 48, v <= 57)):
        return SymInt(v - 48)
    return None


def run_number(ki, kf, sign, unit, dot):
    """literal = sign + ki digits + ('.' + kf digits if dot)"""
    cssutils = common.setup_lifted()
    from sx.core import eng, fresh_bool, SymInt, sym_and, sym_or, sym_not
    from sx.symstr import SymStr
    import z3

    def fn():
        e = eng()
        di = _digits(e, ki, 'di')
        df = _digits(e, kf, 'df') if dot else []
        ch = [ord(c) for c in sign] + di + ([46] + df if dot else []) + [ord(c) for c in unit]
        literal = SymStr.mk(ch)
        omit = fresh_bool('omitLeadingZero')
        inputs = {'literal': literal, 'omitLeadingZero': omit}
        common.set_inputs(inputs)
        info = {'in': inputs, 'tags': []}
        cssutils.ser.prefs.useDefaults()
        cssutils.ser.prefs.omitLeadingZero = omit
        cssutils.log.raiseExceptions = True
        # exact value of the literal
        N = 0
        for d in di + df:
            N = N * 10 + (d - 48)
        k = len(df)
        sgn = -1 if sign == '-' else 1
        try:
            v = cssutils.css.DimensionValue(literal)
        except Exception as ex:
            info['note'] = 'DimensionValue(%r...) raised %s: %s' % (sign, type(ex).__name__, str(ex)[:100])
            return False, info
        conds = []
        # typed accessors agree with the source text
        val = v.value
        if hasattr(val, '_sx_symdec'):
            conds.append(val.n * (10 ** (k - val.k)) == sgn * N if k >= val.k else val.n == sgn * N * (10 ** (val.k - k)))
        elif isinstance(val, SymInt):
            conds.append(val.e * (10 ** k) == sgn * N)
        else:
            conds.append(z3.BoolVal(True) if False else (val * (10 ** k) == sgn * N) if isinstance(val, int) else None)
        want_dim = unit if unit else None
        if v.dimension != (want_dim.lower() if want_dim else None):
            info['note'] = 'dimension %r, expected %r' % (v.dimension, want_dim)
            return False, info
        try:
            out = v.cssText
        except Exception as ex:
            info['note'] = 'serialising raised %s: %s' % (type(ex).__name__, str(ex)[:100])
            return False, info
        info['tags'].append('serialised')
        osign, oN, ok_, rest, nint, first_int, last_frac, seen_dot = read_decimal(out)
        # same unit (zero lengths may lose it)
        zero = (N == 0) if isinstance(N, int) else e.branch(N == 0)
        unit_n = unit.lower()
        if not (rest == unit_n):
            if not (zero and unit_n in ZERO_UNITLESS and rest == ''):
                info['note'] = 'unit changed'
                return False, info
        # same rational: (-1)^s oN / 10^ok == sgn N / 10^k
        osgn = -1 if osign == '-' else 1
        lhs = osgn * _e(oN) * (10 ** k)
        rhs = sgn * N * (10 ** ok_)
        conds.append(lhs == rhs)
        # sign kept ('+' only for non-zero values; '-0' may become '0')
        if not zero:
            if osign != sign:
                info['note'] = 'sign changed: %r -> %r' % (sign, osign)
                return False, info
        # no redundant zeros
        if seen_dot and ok_ == 0:
            info['note'] = 'dangling decimal point'
            return False, info
        if ok_ and last_frac is not None:
            conds.append(_e(last_frac) != 0)
        if nint > 1 and first_int is not None:
            conds.append(_e(first_int) != 0)
        conds = [c for c in conds if c is not None]
        return sym_and(*[c if isinstance(c, bool) else c for c in conds]), info

    return common.explore(fn, 'number(%d.%d,sign=%r,unit=%r,dot=%s)' % (ki, kf, sign, unit, dot), path_timeout_s=120.0)


def _e(x):
    from sx.core import SymInt
    return x.e if isinstance(x, SymInt) else x


def _hexv(c):
    import z3
    return z3.If(c <= 57, c - 48, z3.If(c <= 70, c - 55, c - 87))


def run_hash(short):
    cssutils = common.setup_lifted()
    from sx.core import eng, fresh_bool, SymInt, sym_and
    from sx.symstr import SymStr
    from sx.mask import Mask
    import z3

    def fn():
        e = eng()
        hm = Mask.of(HEXD)
        ds = []
        for i in range(3 if short else 6):
            d = e.fresh_int('h', 48, 102)
            e.assume(hm.formula(d), {d.get_id(): (d, hm)})
            ds.append(d)
        literal = SymStr([35] + ds)
        mini = fresh_bool('minimizeColorHash')
        inputs = {'literal': literal, 'minimizeColorHash': mini}
        common.set_inputs(inputs)
        info = {'in': inputs, 'tags': []}
        cssutils.ser.prefs.useDefaults()
        cssutils.ser.prefs.minimizeColorHash = mini
        cssutils.log.raiseExceptions = True
        try:
            v = cssutils.css.ColorValue(literal)
            out = v.cssText
        except Exception as ex:
            info['note'] = 'raised %s: %s' % (type(ex).__name__, str(ex)[:100])
            return False, info
        if short:
            want = [_hexv(d) * 17 for d in ds]
        else:
            want = [_hexv(ds[0]) * 16 + _hexv(ds[1]), _hexv(ds[2]) * 16 + _hexv(ds[3]),
                    _hexv(ds[4]) * 16 + _hexv(ds[5])]
        conds = [_e(v.red) == want[0], _e(v.green) == want[1], _e(v.blue) == want[2]]
        if not (v.alpha == 1.0):
            info['note'] = 'alpha %r' % (v.alpha,)
            return False, info
        # the serialised hash denotes the same bytes
        if not (out[0] == '#') or len(out) not in (4, 7):
            info['note'] = 'serialised hash has an odd shape'
            return False, info
        oc = [c.ch[0] if hasattr(c, 'ch') else ord(c) for c in out[1:]]
        if len(out) == 4:
            info['tags'].append('short-output')
            got = [_hexv(_zz(c)) * 17 for c in oc]
        else:
            info['tags'].append('long-output')
            got = [_hexv(_zz(oc[0])) * 16 + _hexv(_zz(oc[1])), _hexv(_zz(oc[2])) * 16 + _hexv(_zz(oc[3])),
                   _hexv(_zz(oc[4])) * 16 + _hexv(_zz(oc[5]))]
        for g, w in zip(got, want):
            conds.append(g == w)
        return sym_and(*conds), info

    return common.explore(fn, 'hash(short=%s)' % short)


def _zz(c):
    import z3
    return z3.IntVal(c) if isinstance(c, int) else c


def run_rgb(form):
    cssutils = common.setup_lifted()
    from sx.core import eng, fresh_int, SymInt, sym_and
    from sx.lift import _sx_str
    from sx import symre

    def fn():
        r, g, b = fresh_int('r', 0, 255), fresh_int('g', 0, 255), fresh_int('b', 0, 255)
        if form == 'rgb':
            text = symre._join(['rgb(', _sx_str(r), ', ', _sx_str(g), ',', _sx_str(b), ')'], False)
            want = [r, g, b]
        elif form == 'rgba':
            text = symre._join(['rgba(', _sx_str(r), ',', _sx_str(g), ',', _sx_str(b), ', 0.5)'], False)
            want = [r, g, b]
        else:
            p = fresh_int('p', 0, 100)
            text = symre._join(['rgb(', _sx_str(p), '%, ', _sx_str(p), '%, 100%)'], False)
            want = None
        inputs = {'text': text}
        common.set_inputs(inputs)
        info = {'in': inputs, 'tags': [form]}
        cssutils.ser.prefs.useDefaults()
        cssutils.log.raiseExceptions = True
        try:
            v = cssutils.css.ColorValue(text)
            out = v.cssText
        except Exception as ex:
            info['note'] = 'raised %s: %s' % (type(ex).__name__, str(ex)[:100])
            return False, info
        conds = []
        if want is not None:
            conds += [v.red == want[0], v.green == want[1], v.blue == want[2]]
            if form == 'rgba' and not (v.alpha == 0.5):
                info['note'] = 'alpha %r' % (v.alpha,)
                return False, info
        else:
            # documented formula: int(255 * p / 100)
            import z3
            conds += [_e(v.red) == (255 * p.e) / 100, _e(v.blue) == 255]
        # serialisation keeps the arguments: reparse gives the same channels
        try:
            v2 = cssutils.css.ColorValue(out)
        except Exception as ex:
            info['note'] = 'reparse of %s raised %s' % ('output', type(ex).__name__)
            return False, info
        conds += [v2.red == v.red, v2.green == v.green, v2.blue == v.blue]
        return sym_and(*conds), info

    return common.explore(fn, 'rgb(%s)' % form, path_timeout_s=120.0)


COMPONENTS = ['a', '1px', '"s"', 'url(u)', '#abc', 'f(1)', '50%', '-2']
SEPS = [' ', ',', '/', ' , ', ' / ']


def run_order(k):
    cssutils = common.setup_lifted()
    from sx.core import fresh_int

    def fn():
        idx = [fresh_int('comp%d' % i, 0, len(COMPONENTS) - 1) for i in range(k)]
        seps = [fresh_int('sep%d' % i, 0, len(SEPS) - 1) for i in range(k - 1)]
        inputs = {'components': list(idx), 'separators': list(seps)}
        common.set_inputs(inputs)
        info = {'in': inputs, 'tags': ['order']}
        parts = []
        for i in range(k):
            parts.append(COMPONENTS[int(idx[i])])
            if i < k - 1:
                parts.append(SEPS[int(seps[i])])
        text = ''.join(parts)
        cssutils.ser.prefs.useDefaults()
        cssutils.log.raiseExceptions = True
        d = check_order(cssutils, text, [COMPONENTS[int(i)] for i in idx], [SEPS[int(s)].strip() or ' ' for s in seps])
        if d:
            info['note'] = d
            return False, info
        return True, info

    return common.explore(fn, 'order(k=%d)' % k)


def check_order(cssutils, text, comps, seps):
    try:
        pv = cssutils.css.PropertyValue(text)
    except Exception as ex:
        return 'PropertyValue(%r) raised %s' % (text, type(ex).__name__)
    items = [it.cssText for it in pv]
    want = [cssutils.css.PropertyValue(c).cssText for c in comps]
    if items != want:
        return 'components of %r: %r, expected %r' % (text, items, want)
    out = pv.cssText
    pv2 = cssutils.css.PropertyValue(out)
    if [it.cssText for it in pv2] != items:
        return 'components change after serialise/reparse: %r -> %r' % (text, out)
    # separators: the operator characters appear in order in the output
    ops = [s for s in seps if s != ' ']
    found = [c for c in _outside_parens(out) if c in ',/']
    if found != ops:
        return 'separators of %r: %r, expected %r (output %r)' % (text, found, ops, out)
    return None


def _outside_parens(s):
    depth = 0
    q = None
    for c in s:
        if q:
            if c == q:
                q = None
            continue
        if c in '"\'':
            q = c
        elif c == '(':
            depth += 1
        elif c == ')':
            depth -= 1
        elif depth == 0:
            yield c


def jobs(tier):
    out = []
    mi, mf = (3, 3) if tier == 'quick' else (5, 6)
    units = ['', '%', 'px', 'em', 'x'] if tier == 'quick' else UNITS
    for unit in units:
        for sign in ('', '+', '-'):
            for ki in range(0, mi + 1):
                for kf in range(0, mf + 1):
                    if ki == 0 and kf == 0:
                        continue
                    if tier == 'quick' and unit not in ('', 'px') and (ki > 2 or kf > 2):
                        continue
                    out.append(('harness.c18', 'run_number', dict(ki=ki, kf=kf, sign=sign, unit=unit, dot=kf > 0)))
    out.append(('harness.c18', 'run_hash', dict(short=True)))
    out.append(('harness.c18', 'run_hash', dict(short=False)))
    for form in ('rgb', 'rgba', 'percent'):
        out.append(('harness.c18', 'run_rgb', dict(form=form)))
    for k in (1, 2, 3):
        out.append(('harness.c18', 'run_order', dict(k=k)))
    return out


def main(tier):
    rep = common.Report(PROP, tier)
    results = common.run_jobs(jobs(tier))
    rep.add_results(results)
    cases = []
    for r in results:
        cases.extend(r['cex'])
    rep.handle_counterexamples(cases)
    rep.bounds = {
        'numbers': 'all decimal literals with <= %d integer and <= %d fractional digits (every digit a solver variable), '
                   'sign none/+/-, %s; omitLeadingZero symbolic' % ((3, 3, 'number, %, px, em, unknown unit') if tier == 'quick'
                                                                      else (5, 6, 'number, % and 12 units')),
        'hash': 'all 22^6 spellings of #rrggbb and 22^3 of #rgb; minimizeColorHash symbolic',
        'rgb': 'rgb()/rgba() with three symbolic integers 0..255; rgb(p%,p%,100%) with symbolic integer p',
        'order': 'all sequences of <= 3 components from %d kinds with %d separator spellings' % (len(COMPONENTS), len(SEPS)),
    }
    rep.assumptions = ["float() and '%f' on number literals are modelled by exact decimals (sx/symnum.SymDec): valid for "
                       'literals with at most 15 significant digits and at most 6 fractional digits',
                       'hsl()/hsla() channel computation (colorsys, binary floating point) is not encoded']
    rep.outside = ['hsl()/hsla()', 'literals with more than 15 significant or 6 fractional digits', 'colour keywords',
                   'strings and URLs (C03 kernels)']
    rep.witness_required = ['serialised', 'short-output', 'long-output', 'rgb', 'order']
    return rep.finish()


# ---------------------------------------------------------------------- replay (unlifted)

def replay(case):
    import cssutils
    from fractions import Fraction
    import re
    cssutils.log.setLevel(60)
    cssutils.log.raiseExceptions = True
    inp = case['inputs']
    job = case['job']
    cssutils.ser.prefs.useDefaults()
    if job.startswith('number'):
        lit = inp['literal']
        cssutils.ser.prefs.omitLeadingZero = inp['omitLeadingZero']
        m = re.fullmatch(r'([+-]?)([0-9]*)(?:\.([0-9]+))?(.*)', lit, re.S)
        sign, ip, fp, unit = m.group(1), m.group(2), m.group(3) or '', m.group(4)
        exact = Fraction(int((ip + fp) or '0'), 10 ** len(fp)) * (-1 if sign == '-' else 1)
        try:
            v = cssutils.css.DimensionValue(lit)
            out = v.cssText
        except Exception as e:
            return {'reproduced': True, 'detail': 'DimensionValue(%r) raised %r' % (lit, e),
                    'fields': {'symptom': 'raises', 'literal': lit}}
        problems = []
        if Fraction(v.value).limit_denominator(10 ** 9) != exact and abs(Fraction(v.value) - exact) > Fraction(1, 10 ** 12):
            problems.append('.value %r != %s' % (v.value, exact))
        if (v.dimension or '') != unit.lower():
            problems.append('.dimension %r != %r' % (v.dimension, unit))
        mo = re.fullmatch(r'([+-]?)([0-9]*)(?:(\.)([0-9]*))?(.*)', out, re.S)
        osign, oip, odot, ofp, ounit = mo.group(1), mo.group(2), mo.group(3), mo.group(4) or '', mo.group(5)
        oval = Fraction(int((oip + ofp) or '0'), 10 ** len(ofp)) * (-1 if osign == '-' else 1)
        if oval != exact:
            problems.append('serialised %r denotes %s, literal denotes %s' % (out, oval, exact))
        if ounit != unit.lower() and not (exact == 0 and unit.lower() in ZERO_UNITLESS and ounit == ''):
            problems.append('unit %r -> %r' % (unit, ounit))
        if exact != 0 and osign != sign:
            problems.append('sign %r -> %r' % (sign, osign))
        if odot and not ofp:
            problems.append('dangling decimal point in %r' % out)
        if ofp.endswith('0') or (len(oip) > 1 and oip.startswith('0')):
            problems.append('redundant zeros in %r' % out)
        if not problems:
            return {'reproduced': False, 'detail': '%r -> %r fine' % (lit, out)}
        return {'reproduced': True, 'detail': 'literal %r (omitLeadingZero=%s) -> %r: %s'
                % (lit, inp['omitLeadingZero'], out, '; '.join(problems)),
                'fields': {'symptom': 'number', 'literal': lit, 'problem': problems[0].split()[0],
                           'omitLeadingZero': inp['omitLeadingZero']}}
    if job.startswith('hash'):
        lit = inp['literal']
        cssutils.ser.prefs.minimizeColorHash = inp['minimizeColorHash']
        v = cssutils.css.ColorValue(lit)
        out = v.cssText
        h = lit[1:]
        want = [int(c * 2, 16) for c in h] if len(h) == 3 else [int(h[i:i + 2], 16) for i in (0, 2, 4)]
        oh = out[1:]
        got = [int(c * 2, 16) for c in oh] if len(oh) == 3 else [int(oh[i:i + 2], 16) for i in (0, 2, 4)]
        if [v.red, v.green, v.blue] == want and got == want and v.alpha == 1.0:
            return {'reproduced': False, 'detail': 'hash fine'}
        return {'reproduced': True, 'detail': '%r: channels %r (expected %r), serialised %r' % (lit, [v.red, v.green, v.blue], want, out),
                'fields': {'symptom': 'hash', 'literal': lit}}
    if job.startswith('rgb'):
        text = inp['text']
        try:
            v = cssutils.css.ColorValue(text)
            out = v.cssText
            v2 = cssutils.css.ColorValue(out)
        except Exception as e:
            return {'reproduced': True, 'detail': 'ColorValue(%r) raised %r' % (text, e), 'fields': {'symptom': 'rgb-raises'}}
        nums = [float(x) for x in re.findall(r'[0-9.]+', text)]
        if '%' in text:
            want = [int(255 * nums[0] / 100), int(255 * nums[1] / 100), 255]
        else:
            want = [int(nums[0]), int(nums[1]), int(nums[2])]
        if [v.red, v.green, v.blue] == want and [v2.red, v2.green, v2.blue] == want:
            return {'reproduced': False, 'detail': 'rgb fine'}
        return {'reproduced': True, 'detail': '%r: channels %r, expected %r; after round trip %r'
                % (text, [v.red, v.green, v.blue], want, [v2.red, v2.green, v2.blue]), 'fields': {'symptom': 'rgb'}}
    if job.startswith('order'):
        comps = [COMPONENTS[i] for i in inp['components']]
        seps = [SEPS[i] for i in inp['separators']]
        text = ''.join(c + (seps[i] if i < len(seps) else '') for i, c in enumerate(comps))
        d = check_order(cssutils, text, comps, [s.strip() or ' ' for s in seps])
        if not d:
            return {'reproduced': False, 'detail': 'order fine'}
        return {'reproduced': True, 'detail': d, 'fields': {'symptom': 'order', 'text': text}}
    return {'reproduced': False, 'detail': 'unknown job'}
