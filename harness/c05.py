"""C05 - Tokenizer: total, lossless, position-accurate, classifies by the grammar.

Jobs
  tiling      real Tokenizer.tokenize on every Unicode text of length n (all characters symbolic),
              both fullsheet modes, both doComments modes, compared token for token with the
              reference driver (ref/tokenizer_ref.py): types, decoded values, line, col; the
              reference's spans tile [0, n) by construction, equality transfers it.
  classify    for each token type T an independent grammar G_T (ref/css_tokens.py); for every
              s in L(G_T), |s| <= n, followed by an unambiguous separator: the first token is T
              spanning exactly s.
"""
import json
import os
import sys

from . import common

PROP = 'C05'

SPLITS = [
    ('ws', ' \t\n\r\f'), ('alpha', None), ('digit', '0123456789'), ('minus', '-'), ('bs', '\\'),
    ('at', '@'), ('hash', '#'), ('quote', '"\''), ('slash', '/'), ('uU', 'uU'),
    ('open', '([{'), ('close', ')]}'), ('sep', ',:;.!'), ('op', '+>~*=|^$<%&?'),
    ('punct', None), ('nonascii', None),
]


def _split_mask(name):
    from sx.mask import Mask
    if name == 'alpha':
        return Mask([(65, 84), (86, 90), (97, 116), (118, 122), (95, 95)])
    if name == 'nonascii':
        return Mask.rng(128, 0x10FFFF)
    if name == 'punct':
        m = Mask.rng(0, 127)
        for nm, chars in SPLITS:
            if chars:
                m = m.minus(Mask.of(chars))
        return m.minus(_split_mask('alpha'))
    return Mask.of(dict(SPLITS)[name])


def _tok_tuple(t):
    return (t[0], t[1], t[2], t[3])


PREFIXES = [
    ('@charset ', ''), ('\xfe\xff', ''), ('\xef\xbb\xbf', ''), ('url(', ''), ('u\\72l(', ''),
    ('/*', ''), ('"', ''), ("'", ''), ('\\', ''), ('a\\', ''), ('\\4', ''), ('\\000041', ''),
    ('a\n', ''), ('\n', ''), ('\r\n', ''), ('@', ''), ('@media', ''), ('#', ''), ('1', ''),
    ('1.', ''), ('-', ''), ('--', ''), ('<!-', ''), ('U+', ''), ('/* */', ''), ('"\\\n', ''),
    ('a(', ''), ('and', '('), ('@charset', ''), ('x@charset', ' '), ('\xfe\xff@charset ', ''),
    ('/*', '*/'), ('"', '"'), ("'", "'"), ('url(', ')'), ('url("', '")'), ('a', '('), ('', '\n'),
    ('/*\n', ''), ('"\\\r\n', ''), ('1e', ''), ('\\110000', ''), ('@\\6d edia', ''),
]


def run_tiling(n, fullsheet, do_comments, split=None, path_timeout_s=60.0, prefix='', suffix=''):
    cssutils = common.setup_lifted()
    from cssutils.tokenize2 import Tokenizer
    from sx.symstr import fresh_str
    from sx.core import sym_and, eng
    from ref.tokenizer_ref import ref_tokenize

    tk = Tokenizer(doComments=do_comments)

    def fn():
        s = fresh_str(n)
        if split is not None and n:
            eng().assume(_split_mask(split).formula(s.ch[0]))
        if prefix or suffix:
            s = prefix + s + suffix
        info = {'in': {'text': s, 'fullsheet': fullsheet, 'doComments': do_comments}}
        try:
            got = list(tk.tokenize(s, fullsheet=fullsheet))
        except Exception as e:
            info['note'] = 'tokenize raised %s: %s' % (type(e).__name__, e)
            return False, info
        exp = ref_tokenize(s, tk.tokenmatches, fullsheet, do_comments)
        info['tags'] = ['tok:' + t[0] for t in got]
        if len(got) != len(exp):
            info['note'] = 'token count differs: got %r expected %r' % (
                [t[0] for t in got], [t[0] for t in exp])
            return False, info
        conds = []
        for g, x in zip(got, exp):
            if g[0] != x[0]:
                info['note'] = 'token type differs: got %r expected %r' % (
                    [t[0] for t in got], [t[0] for t in exp])
                return False, info
            conds.append(g[1] == x[1])
            if g[0] != 'EOF':
                conds.append(g[2] == x[2])
                conds.append(g[3] == x[3])
        return sym_and(*conds), info

    return common.explore(fn, 'tiling(n=%d,fullsheet=%s,doComments=%s,split=%s,prefix=%r,suffix=%r)'
                          % (n, fullsheet, do_comments, split, prefix, suffix),
                          path_timeout_s=path_timeout_s)


def run_classify(ttype, n, sep):
    cssutils = common.setup_lifted()
    from cssutils.tokenize2 import Tokenizer
    from sx.symstr import fresh_str
    from sx.core import sym_and, eng
    from sx import symre
    from ref import css_tokens
    from ref.tokenizer_ref import decode_hex_escapes, strip_escaped_newlines

    tk = Tokenizer()
    gram = symre.re_facade.compile(css_tokens.GRAMMAR[ttype])

    def fn():
        s = fresh_str(n)
        if not gram.fullmatch(s):
            return True, {'tags': ['notinlang']}
        info = {'in': {'type': ttype, 'lexeme': s, 'sep': sep}, 'tags': ['inlang:' + ttype]}
        text = s + sep
        try:
            got = list(tk.tokenize(text))
        except Exception as e:
            info['note'] = 'tokenize raised %s: %s' % (type(e).__name__, e)
            return False, info
        want_type = css_tokens.expected_type(ttype, s)
        if want_type is None:
            return True, {'tags': ['documented-exception']}
        if isinstance(want_type, tuple):     # (type, lexeme-extension): '@charset' + ' '
            want_type, ext = want_type
        else:
            ext = ''
        value = s + ext
        if want_type in css_tokens.DECODED:
            value = decode_hex_escapes(value)
            if want_type == 'STRING':
                value = strip_escaped_newlines(value)
        if not got or got[0][0] != want_type:
            info['note'] = 'first token %r, expected %s' % (got[0][0] if got else None, want_type)
            return False, info
        # the first token must span exactly the lexeme: the rest must tokenise as the separator
        rest_types = [t[0] for t in got[1:]]
        if rest_types != css_tokens.SEP_TYPES[sep][len(ext):]:
            info['note'] = 'lexeme not recognised as one token: %r' % ([t[0] for t in got],)
            return False, info
        return sym_and(got[0][1] == value), info

    return common.explore(fn, 'classify(%s,n=%d,sep=%r)' % (ttype, n, sep))


def jobs(tier):
    out = []
    nmax = 4 if tier == 'quick' else 5
    for n in range(0, nmax + 1):
        for fullsheet in (False, True):
            for dc in (True, False):
                if n >= 4:
                    for name, _ in SPLITS:
                        out.append(('harness.c05', 'run_tiling',
                                    dict(n=n, fullsheet=fullsheet, do_comments=dc, split=name)))
                else:
                    out.append(('harness.c05', 'run_tiling',
                                dict(n=n, fullsheet=fullsheet, do_comments=dc)))
    pmax = 2 if tier == 'quick' else 3
    for pre, suf in PREFIXES:
        for n in range(0, pmax + 1):
            for fullsheet in (False, True):
                out.append(('harness.c05', 'run_tiling',
                            dict(n=n, fullsheet=fullsheet, do_comments=True, prefix=pre, suffix=suf)))
        out.append(('harness.c05', 'run_tiling',
                    dict(n=pmax - 1, fullsheet=True, do_comments=False, prefix=pre, suffix=suf)))
    from ref import css_tokens
    for ttype in css_tokens.GRAMMAR:
        lo, hq, ht = css_tokens.LENGTHS[ttype]
        for n in range(lo, (hq if tier == 'quick' else ht) + 1):
            for sep in css_tokens.separators(ttype):
                out.append(('harness.c05', 'run_classify', dict(ttype=ttype, n=n, sep=sep)))
    # heavy jobs first
    out.sort(key=lambda j: -j[2].get('n', 0))
    return out


def main(tier):
    rep = common.Report(PROP, tier)
    js = jobs(tier)
    results = common.run_jobs(js)
    rep.add_results(results)
    cases = []
    for r in results:
        cases.extend(r['cex'])
        for t in r['timeouts']:
            rep.harness_errors.append('path timeout in %s: %s' % (r['job'], t))
    rep.handle_counterexamples(cases)
    rep.bounds = {
        'tiling': 'all Unicode texts of length <= %d (every character a solver variable over '
                  '0..0x10FFFF), fullsheet in {False,True}, doComments in {True,False}'
                  % (4 if tier == 'quick' else 5),
        'tiling_prefixed': 'each of %d concrete (prefix, suffix) contexts around a symbolic infix of '
                           'length <= %d' % (len(PREFIXES), 2 if tier == 'quick' else 3),
        'classify': 'lexemes in the reference grammar of each token type with the lengths of '
                    'ref/css_tokens.LENGTHS (%s column), followed by each listed separator' % tier,
        'solver_timeout_ms': 10000, 'path_timeout_s': 60,
    }
    rep.assumptions = [
        'the compiled production patterns are interpreted by the symbolic regex layer (sx/symre.py) '
        'with sre priority semantics; validated differentially against re on every run (selfcheck)',
        'str.lower / unicodedata tables are those of the running interpreter',
    ]
    rep.stubs = ['logging: StubLog (records level, formats nothing)']
    rep.outside = ['texts longer than the bound', 'syntax-error positions from a raising parser '
                   '(checked by the C01/C04 pipeline harness under this id when built)']
    rep.witness_required = ['tok:IDENT', 'tok:FUNCTION', 'tok:STRING', 'tok:URI', 'tok:COMMENT',
                            'tok:HASH', 'tok:NUMBER', 'tok:DIMENSION', 'tok:PERCENTAGE',
                            'tok:ATKEYWORD', 'tok:S', 'tok:CHAR', 'tok:INVALID', 'tok:EOF',
                            'tok:CDO', 'tok:CDC', 'tok:INCLUDES', 'tok:CHARSET_SYM']
    return rep.finish()


# ---------------------------------------------------------------------- replay (unlifted)

def replay(case):
    from cssutils.tokenize2 import Tokenizer
    from ref.tokenizer_ref import ref_tokenize, decode_hex_escapes, strip_escaped_newlines
    inp = case['inputs']
    job = case['job']
    if job.startswith('tiling'):
        tk = Tokenizer(doComments=inp['doComments'])
        text = inp['text']
        try:
            got = [tuple(t) for t in tk.tokenize(text, fullsheet=inp['fullsheet'])]
        except Exception as e:
            return {'reproduced': True, 'detail': 'tokenize(%r) raised %r' % (text, e),
                    'fields': {'symptom': 'raises', 'exc': type(e).__name__, 'text': text}}
        exp = ref_tokenize(text, tk.tokenmatches, inp['fullsheet'], inp['doComments'])
        expc = [(t[0], t[1]) + ((t[2], t[3]) if t[0] != 'EOF' else ()) for t in exp]
        gotc = [(t[0], t[1]) + ((t[2], t[3]) if t[0] != 'EOF' else ()) for t in got]
        if gotc == expc:
            return {'reproduced': False, 'detail': 'tokens agree with the reference: %r' % (got,)}
        symptom = 'tokens'
        types_g = [t[0] for t in gotc]
        types_e = [t[0] for t in expc]
        first = None
        if types_g != types_e:
            symptom = 'types'
        else:
            for g, x in zip(gotc, expc):
                if g != x:
                    first = g[0]
                    if g[1] != x[1]:
                        symptom = 'value'
                    else:
                        symptom = 'position'
                    break
        # is the whole difference "columns on line 1 after a BOM are short by len(BOM)"?
        bom_shift = False
        if got and got[0][0] == 'BOM':
            k = len(got[0][1])
            adj = [gotc[0]] + [(t[0], t[1], t[2], t[3] + k) if len(t) == 4 and t[2] == 1 else t
                               for t in gotc[1:]]
            bom_shift = adj == expc
        return {'reproduced': True,
                'detail': 'tokenize(%r, fullsheet=%s, doComments=%s)\n   got      %r\n   expected %r'
                          % (text, inp['fullsheet'], inp['doComments'], gotc, expc),
                'fields': {'symptom': symptom, 'text': text, 'first_diff_type': first,
                           'got_types': ' '.join(types_g), 'exp_types': ' '.join(types_e),
                           'has_bom': bool(got and got[0][0] == 'BOM'),
                           'only_bom_column_shift': bom_shift,
                           'doComments': inp['doComments'], 'fullsheet': inp['fullsheet']}}
    if job.startswith('classify'):
        from ref import css_tokens
        tk = Tokenizer()
        s, sep, ttype = inp['lexeme'], inp['sep'], inp['type']
        import re
        if not re.fullmatch(css_tokens.GRAMMAR[ttype], s):
            return {'reproduced': False, 'detail': 'lexeme %r not in reference grammar' % s}
        got = [tuple(t) for t in tk.tokenize(s + sep)]
        want = css_tokens.expected_type(ttype, s)
        if want is None:
            return {'reproduced': False, 'detail': 'documented exception'}
        ext = ''
        if isinstance(want, tuple):
            want, ext = want
        value = s + ext
        if want in css_tokens.DECODED:
            value = decode_hex_escapes(value)
            if want == 'STRING':
                value = strip_escaped_newlines(value)
        ok = (got and got[0][0] == want and got[0][1] == value
              and [t[0] for t in got[1:]] == css_tokens.SEP_TYPES[sep][len(ext):])
        if ok:
            return {'reproduced': False, 'detail': 'classified as expected: %r' % (got,)}
        # is the whole difference "leading BOM characters split off as a BOM token"?
        bom_split = False
        if got and got[0][0] == 'BOM' and s.startswith(got[0][1]):
            k = len(got[0][1])
            rest = [tuple(t) for t in Tokenizer().tokenize(s[k:] + sep)]
            bom_split = [(t[0], t[1]) for t in got[1:]] == [(t[0], t[1]) for t in rest]
        return {'reproduced': True,
                'detail': 'lexeme %r of type %s followed by %r tokenised as %r (expected %s %r)'
                          % (s, ttype, sep, got, want, value),
                'fields': {'symptom': 'classify', 'type': ttype, 'lexeme': s, 'sep': sep,
                           'got_first': got[0][0] if got else None,
                           'only_bom_split': bom_split}}
    return {'reproduced': False, 'detail': 'unknown job %s' % job}
