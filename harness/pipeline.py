"""Whole-pipeline exploration shared by C01 (never raises / never hangs), C12 (frame condition on
library-wide state) and C05 (error positions): a concrete state-setting prefix, a symbolic infix of
every length <= n over all of Unicode, an optional concrete suffix, through
parse -> serialise -> parse -> serialise on the real (lifted) code."""

# (prefix, suffix) pairs that put each hand-written state machine into each of its states
SHEET_CONTEXTS = [
    ('', ''),
    ('@charset ', ''), ('@charset "', ''), ('@charset "x"', ''), ('@charset "utf-8";', ''),
    ('@import ', ''), ('@import "x" ', ''), ('@import url(x) ', ''), ('@import "x";', ''),
    ('@namespace ', ''), ('@namespace p ', ''), ('@namespace p "u";', ''),
    ('@media ', ''), ('@media print ', ''), ('@media print{', ''), ('@media print{a{', ''),
    ('@media print{@media tv{', ''), ('@media print and (', ''),
    ('@page ', ''), ('@page :', ''), ('@page{', ''), ('@page{@top-left{', ''), ('@page{margin:', ''),
    ('@font-face{', ''), ('@font-face{src:', ''),
    ('@variables{', ''), ('@variables{x:', ''),
    ('@x ', ''), ('@x{', ''), ('@x (', ''), ('@', ''),
    ('a', ''), ('a ', ''), ('a[', ''), ('a[b=', ''), ('a:', ''), ('a::', ''), ('a:not(', ''),
    ('a:nth-child(', ''), ('a|', ''), ('*|', ''), ('a,', ''), ('a>', ''), ('.', ''), ('#', ''),
    ('a{', ''), ('a{b', ''), ('a{b:', ''), ('a{b:c', ''), ('a{b:c ', ''), ('a{b:c!', ''),
    ('a{b:c !important', ''), ('a{b:c;', ''), ('a{b:1', ''), ('a{b:1.', ''), ('a{b:#', ''),
    ('a{b:f(', ''), ('a{b:var(', ''), ('a{b:rgb(', ''), ('a{b:rgb(1,', ''), ('a{b:calc(', ''),
    ('a{b:calc(1 +', ''), ('a{b:url(', ''), ('a{b:expression(', ''), ('a{b:"', ''), ("a{b:'", ''),
    ('a{b:/*', ''), ('a{/*', ''), ('/*', ''), ('a{b:c,', ''), ('a{b:c/', ''), ('a{b:U+', ''),
    ('a{b:-', ''), ('a{b:\\', ''), ('a{b:(', ''), ('a{b:[', ''), ('a{b:{', ''), ('a{{', ''),
    ('a{}', ''), ('a{b:c}', ''), ('<!--', ''), ('<!-- a{} -->', ''), ('a{b:c} @import "x";', ''),
    ('a{b:', '}'), ('a{', ':c}'), ('', '{b:c}'), ('a{b:c', ';d:e}'), ('@media ', '{a{b:c}}'),
    ('a{b:', '} d{e:f}'), ('@import "', '";'), ('a[b="', '"]{}'), ('a{b:url("', '")}'),
    ('@', ' x;'), ('a{b:f(', ')}'), ('a{b:#', '}'),
    # escaped delimiters inside names (the tokenizer decodes them into the token value)
    ('a\\|', ''), ('a\\|b|', ''), ('a\\7c b|', ''), ('.\\{', ''), ('#\\[', ''), ('a\\(', ''), ('a\\:', ''),
    ('a\\,', ''), ('a[\\]', ''), ('a{b\\:', ''), ('a{b:c\\;', ''), ('a{b:c\\}', ''), ('a{b:c\\!', ''),
    ('a{b:\\(', ''), ('@\\{', ''), ('@media \\,', ''), ('a{color:#abc\\', ''), ('a{color:#a\\', ''),
    ('a:nth-child(/**/', ''), ('a:not(/**/', ''), ('a{b:f(/**/', ''),
    ('@charset "hex";a{b:c}', ''), ('@charset "rot13";', ''), ('@charset "idna";a{', ''),
]

STYLE_CONTEXTS = [
    ('', ''), ('b', ''), ('b:', ''), ('b:c', ''), ('b:c ', ''), ('b:c!', ''), ('b:c;', ''),
    ('b:1', ''), ('b:f(', ''), ('b:var(', ''), ('b:rgb(', ''), ('b:calc(', ''), ('b:url(', ''),
    ('b:"', ''), ('b:/*', ''), ('/*', ''), ('b:c,', ''), ('b:\\', ''), ('b:(', ''), ('b:{', ''),
    ('{', ''), ('@', ''), ('@x{', ''), ('b:', ';d:e'), ('', ':c'), ('b:c;', ':e'), ('b:#', ''),
    ('b:-', ''), ('b:U+', ''), ('b:expression(', ''), ('b:c !important', ''),
]


def state_vector(cssutils):
    """library-wide state that a parse call must leave as it found it (C12)"""
    from cssutils import prodparser, tokenize2
    prof = cssutils.profile
    return {
        'raiseExceptions': cssutils.log.raiseExceptions,
        'ser_id': id(cssutils.ser),
        'prefs': tuple(sorted((k, repr(v)) for k, v in vars(cssutils.ser.prefs).items())),
        'profiles': tuple(prof.profiles),
        'defaultProfiles': tuple(prof.defaultProfiles) if prof.defaultProfiles else None,
        'knownNames': len(prof.knownNames),
    }
