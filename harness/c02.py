"""C02 - The parsed DOM is exactly what a well-formed source denotes.

An abstract sheet is a sequence of statements from a menu covering the documented grammar (style rules with CSS3
selectors; values made of idents, numbers, dimensions, percentages, strings, URLs, colours, functions, calc(),
unicode-range with space / comma / slash separators; @media incl. nested; @import; @namespace; @page with margin box;
@font-face; unknown at-rules; comments).  Every statement is a token list with typed gaps; a RENDERING is chosen by
solver variables: the filler of all optional gaps, one special gap with its own filler, the fillers of required gaps
(white space, line breaks, comments), the letter case of the case-insensitive tokens (at-keywords, property names,
units, !important, pseudo and function names), the quote style, and one CSS escape of an ordinary name character.

  summary   the canonical rendering parses to the hand-written structure of the statement (SUMMARY: rule kinds,
            selectors, (name, value, priority) triples, media, hrefs ... read through public accessors)
  invariant every rendering parses to the same DOM as the canonical one (semantic projection: comments removed,
            selector texts dropped in favour of the selector item lists, separators kept), and the DOM holds exactly
            as many comments as the rendering wrote
  options   parseComments=False gives the DOM with exactly the comments removed; validate on/off gives the same DOM
  pairs     two statements in one sheet give the concatenation of their DOMs (nothing lost, nothing added)
"""
from . import common, projection

PROP = 'C02'

OPT, REQ, WS = '<opt>', '<req>', '<ws>'      # WS: optional white space, no comment allowed (inside url( ))


def ci(t):
    return ('ci', t)


def name(t):
    return ('name', t)


def q(t):
    return ('str', t)


# statement id -> (rank for ordering, token list, SUMMARY)
STATEMENTS = {
    'style-simple': (5, [name('a'), OPT, '{', OPT, ci('color'), OPT, ':', OPT, 'red', OPT, '}'],
                     [('style', ['a'], [('color', 'red', '')])]),
    'style-list': (5, [name('a'), OPT, ',', OPT, name('b'), OPT, '>', OPT, name('c'), OPT, '{', OPT, ci('left'), OPT, ':', OPT, '1', ci('px'),
                       OPT, ';', OPT, ci('top'), OPT, ':', OPT, '2', ci('em'), OPT, '!', OPT, ci('important'), OPT, '}'],
                   [('style', ['a', 'b > c'], [('left', '1px', ''), ('top', '2em', 'important')])]),
    'style-compound': (5, ['.', name('c'), '#', name('i'), '[', OPT, name('x'), OPT, '=', OPT, q('y'), OPT, ']', ':', ci('hover'), '::', ci('after'),
                           OPT, '{', OPT, ci('content'), OPT, ':', OPT, q('s'), REQ, ci('url('), WS, 'u.png', WS, ')', OPT, ',', OPT, '1.5', OPT, '/',
                           OPT, '2%', OPT, '}'],
                       [('style', ['.c#i[x="y"]:hover::after'], [('content', '"s" url(u.png), 1.5/2%', '')])]),
    'style-combinators': (5, [name('a'), REQ, name('b'), OPT, '+', OPT, name('c'), OPT, '~', OPT, '*', OPT, '{', OPT, ci('margin'), OPT, ':', OPT, '0', REQ,
                              '-1', ci('px'), REQ, '+.5', ci('em'), OPT, ';', OPT, '}'],
                          [('style', ['a b + c ~ *'], [('margin', '0 -1px +0.5em', '')])]),
    'style-functions': (5, [name('a'), ':', ci('not('), OPT, '.', name('b'), OPT, ')', ':', ci('nth-child('), OPT, '2n+1', OPT, ')', OPT, '{', OPT,
                            ci('color'), OPT, ':', OPT, '#AbC', OPT, ';', OPT, ci('width'), OPT, ':', OPT, ci('calc('), OPT, '1px', REQ, '+', REQ, '2px', OPT, ')',
                            OPT, ';', OPT, ci('fill'), OPT, ':', OPT, ci('rgb('), OPT, '1', OPT, ',', OPT, '2', OPT, ',', OPT, '3', OPT, ')', OPT, ';', OPT,
                            ci('range'), OPT, ':', OPT, 'U+0-7F', OPT, ';', OPT, ci('f'), OPT, ':', OPT, ci('g('), OPT, 'h', REQ, 'i', OPT, ')', OPT, '}'],
                        [('style', ['a:not(.b):nth-child(2n+1)'],
                          [('color', '#AbC', ''), ('width', 'calc(1px + 2px)', ''), ('fill', 'rgb(1, 2, 3)', ''), ('range', 'u+0-7f', ''),
                           ('f', 'g(h i)', '')])]),
    'media': (4, [ci('@media'), REQ, 'tv', OPT, ',', OPT, 'print', OPT, '{', OPT, name('a'), OPT, '{', OPT, ci('b'), OPT, ':', OPT, 'c', OPT, '}', OPT, '}'],
              [('media', 'tv, print', [('style', ['a'], [('b', 'c', '')])])]),
    'media-nested': (4, [ci('@media'), REQ, 'tv', OPT, '{', OPT, ci('@media'), REQ, 'print', OPT, '{', OPT, name('a'), OPT, '{', OPT, ci('b'), OPT, ':', OPT, 'c',
                         OPT, '}', OPT, '}', OPT, name('d'), OPT, '{', OPT, ci('e'), OPT, ':', OPT, 'f', OPT, '}', OPT, '}'],
                     [('media', 'tv', [('media', 'print', [('style', ['a'], [('b', 'c', '')])]), ('style', ['d'], [('e', 'f', '')])])]),
    'media-query': (4, [ci('@media'), REQ, 'tv', REQ, ci('and'), REQ, '(', OPT, ci('min-width'), OPT, ':', OPT, '1', ci('px'), OPT, ')', OPT, '{', OPT, name('a'), OPT,
                        '{', OPT, ci('b'), OPT, ':', OPT, 'c', OPT, '}', OPT, '}'],
                    [('media', 'tv and (min-width: 1px)', [('style', ['a'], [('b', 'c', '')])])]),
    'import-str': (1, [ci('@import'), OPT, q('i.css'), REQ, 'tv', OPT, ';'], [('import', 'i.css', 'tv')]),
    'import-url': (1, [ci('@import'), REQ, ci('url('), WS, 'j.css', WS, ')', OPT, ';'], [('import', 'j.css', 'all')]),
    'namespace': (2, [ci('@namespace'), REQ, name('p'), REQ, q('u'), OPT, ';', OPT, name('p'), '|', name('a'), OPT, '{', OPT, ci('b'), OPT, ':', OPT, 'c', OPT, '}'],
                  [('namespace', 'p', 'u'), ('style', ['p|a'], [('b', 'c', '')])]),
    'page': (4, [ci('@page'), REQ, ':', ci('first'), OPT, '{', OPT, ci('margin'), OPT, ':', OPT, '0', OPT, ';', OPT, ci('@top-left'), OPT, '{', OPT, ci('content'), OPT,
                 ':', OPT, q('x'), OPT, '}', OPT, '}'],
             [('page', ':first', [('margin', '0', '')], [('margin-box', '@top-left', [('content', '"x"', '')])])]),
    'font-face': (4, [ci('@font-face'), OPT, '{', OPT, ci('font-family'), OPT, ':', OPT, q('f'), OPT, ';', OPT, ci('src'), OPT, ':', OPT, ci('url('), WS, 's.ttf', WS, ')',
                      OPT, '}'],
                  [('font-face', [('font-family', '"f"', ''), ('src', 'url(s.ttf)', '')])]),
    'unknown-block': (4, ['@x', REQ, 'y', OPT, '{', OPT, 'z', OPT, '}'], [('unknown', '@x')]),
    'unknown-semi': (4, ['@x', REQ, 'y', OPT, ';'], [('unknown', '@x')]),
    'comment': (3, ['/*k*/'], [('comment', '/*k*/')]),
}
IDS = sorted(STATEMENTS)

OPT_FILLERS = ['', ' ', '\n', '/*c*/', ' /*c*/ ', '\t\r\n\f']
REQ_FILLERS = [' ', '\n', ' /*c*/ ', '/*c*/ ', ' /*c*/', '\t \n']
CASES = ['lower', 'upper', 'mixed']
QUOTES = ['"', "'"]
ESCAPES = ['none', 'backslash', 'hex-space', 'hex6']


def _case(t, mode):
    if mode == 'lower':
        return t
    if mode == 'upper':
        return t.upper()
    return ''.join(c.upper() if i % 2 else c for i, c in enumerate(t))


def _escape(t, style):
    c = t[0]
    if style == 'backslash':
        if c in '0123456789abcdefABCDEF':
            return '\\%x ' % ord(c) + t[1:]
        return '\\' + c + t[1:]
    if style == 'hex-space':
        return '\\%x ' % ord(c) + t[1:]
    return '\\%06x ' % ord(c) + t[1:]      # one white space after a hexadecimal escape belongs to it


def render(tokens, u=0, g=-1, v=0, r=0, case=0, quote=0, esc_index=-1, esc_style=0):
    """-> (text, number of comments written)"""
    out = []
    gi = 0
    ni = 0
    ncomments = 0
    for t in tokens:
        if t in (OPT, REQ, WS):
            if t == WS:
                f = OPT_FILLERS[v] if gi == g else OPT_FILLERS[u]
                if '/*' in f:
                    f = ' '
            elif t == OPT:
                f = OPT_FILLERS[v] if gi == g else OPT_FILLERS[u]
            else:
                f = REQ_FILLERS[v % len(REQ_FILLERS)] if gi == g else REQ_FILLERS[r]
            gi += 1
            ncomments += f.count('/*')
            out.append(f)
        elif isinstance(t, tuple):
            kind, text = t
            if kind == 'str':
                out.append(QUOTES[quote] + text + QUOTES[quote])
            else:
                if kind == 'ci':
                    text = _case(text, CASES[case])
                if ni == esc_index and ESCAPES[esc_style] != 'none':
                    if text.startswith('@'):
                        text = '@' + _escape(text[1:], ESCAPES[esc_style])
                    else:
                        text = _escape(text, ESCAPES[esc_style])
                out.append(text)
                ni += 1
        else:
            ncomments += t.count('/*')
            out.append(t)
    return ''.join(out), ncomments


def ngaps(tokens):
    return sum(1 for t in tokens if t in (OPT, REQ, WS))


def nnames(tokens):
    return sum(1 for t in tokens if isinstance(t, tuple) and t[0] in ('name', 'ci'))


# ---------------------------------------------------------------------- semantic projection

def _value_items(pv):
    out = []
    for it in pv.seq:
        v = it.value
        tn = type(v).__name__
        if it.type == 'COMMENT' or tn == 'CSSComment':
            out.append(('COMMENT', v.cssText if hasattr(v, 'cssText') else v))
        elif tn in ('CSSFunction', 'CSSCalc', 'MSValue', 'CSSVariable', 'ColorValue') and hasattr(v, 'seq'):
            out.append((it.type, _value_items(v)))
        elif hasattr(v, 'cssText'):
            out.append((it.type, v.cssText))
        elif isinstance(v, str) and not v.strip() and v:
            continue            # white space kept as an item of a function argument list
        else:
            out.append((it.type, v))
    return out


def _decl(style):
    out = []
    for item in style.seq:
        v = item.value
        tn = type(v).__name__
        if tn == 'Property':
            out.append(('prop', v.name, _value_items(v.propertyValue), v.priority))
        elif tn == 'CSSComment':
            out.append(('COMMENT', v.cssText))
        else:
            out.append(('other', tn))
    return out


def _sel(sl):
    out = []
    for sel in sl:
        items = []
        for it in sel.seq:
            v = it.value
            if isinstance(v, tuple):
                v = list(v)
            if it.type == 'COMMENT' or type(v).__name__ == 'CSSComment':
                items.append(('COMMENT', getattr(v, 'cssText', v)))
            else:
                items.append((it.type, v))
        out.append(('sel', list(sel.specificity), items))
    return out


def _mq(mq):
    out = []
    for it in mq.seq:
        v = it.value
        if it.type == 'COMMENT' or type(v).__name__ == 'CSSComment':
            out.append(('COMMENT', getattr(v, 'cssText', v)))
        elif hasattr(v, 'cssText'):
            out.append(('mqpart', v.cssText))
        else:
            out.append(('mqpart', v))
    return out


def _medialist(ml):
    items = []
    for it in ml.seq:
        v = it.value
        if type(v).__name__ == 'CSSComment' or it.type == 'COMMENT':
            items.append(('COMMENT', getattr(v, 'cssText', v)))
        elif hasattr(v, 'mediaText'):
            items.append(('mq', _mq(v)))
        else:
            items.append((it.type, v))
    return ('medialist', [x for x in items if x[0] in ('mq', 'COMMENT')])


def _nocomment(t):
    import re
    return re.sub(r'\s+', ' ', re.sub(r'/\*.*?\*/', '', t, flags=re.S)).strip()


def sem_rule(r):
    tn = type(r).__name__
    if tn == 'CSSStyleRule':
        return ('style', _sel(r.selectorList), _decl(r.style))
    if tn == 'CSSComment':
        return ('COMMENT', r.cssText)
    if tn == 'CSSCharsetRule':
        return ('charset', r.encoding)
    if tn == 'CSSImportRule':
        return ('import', r.href, _medialist(r.media), r.name, [('COMMENT', 1) for it in r.seq if it.type == 'COMMENT'])
    if tn == 'CSSNamespaceRule':
        return ('namespace', r.prefix, r.namespaceURI, [('COMMENT', 1) for it in r.seq if it.type == 'COMMENT'])
    if tn == 'CSSMediaRule':
        return ('media', _medialist(r.media), [sem_rule(x) for x in r.cssRules])
    if tn == 'CSSPageRule':
        return ('page', ('pagesel', _nocomment(r.selectorText)), _decl(r.style), [sem_rule(x) for x in r.cssRules])
    if tn == 'MarginRule':
        return ('margin-box', r.margin, _decl(r.style))
    if tn == 'CSSFontFaceRule':
        return ('font-face', _decl(r.style))
    if tn == 'CSSUnknownRule':
        return ('unknown', r.atkeyword, [('COMMENT', 1) if it.type == 'COMMENT' else (it.type, it.value if isinstance(it.value, str) else '?')
                                         for it in r.seq if it.type != 'S'])
    return ('?', tn)


def sem(sheet):
    return [sem_rule(r) for r in sheet.cssRules]


def strip(p, counter):
    """remove comment entries, count them"""
    if isinstance(p, list):
        out = []
        for x in p:
            if isinstance(x, tuple) and x and x[0] == 'COMMENT':
                counter[0] += 1
                continue
            out.append(strip(x, counter))
        return out
    if isinstance(p, tuple):
        return tuple(strip(x, counter) for x in p)
    return p


def lowered(p):
    """fold the case of the names CSS defines as case-insensitive where the DOM keeps the written spelling
    (pseudo names, function names inside selectors, the media feature text)"""
    if isinstance(p, tuple) and len(p) == 2 and p[0] in ('pseudo-class', 'pseudo-element', 'negation-start', 'mqpart', 'pagesel') and isinstance(p[1], str):
        return (p[0], p[1].lower())
    if isinstance(p, tuple) and len(p) == 2 and isinstance(p[1], str) and '(' in p[1] and p[0] not in ('URIValue', 'URI', 'COMMENT'):
        head, rest = p[1].split('(', 1)
        return (p[0], head.lower() + '(' + rest)
    if isinstance(p, (list, tuple)):
        return type(p)(lowered(x) for x in p)
    return p


def summary(sheet):
    """the hand-checkable view: rule kinds with selector texts, (name, value, priority), media text, hrefs"""
    def decls(style):
        return [(p.name, p.value, p.priority) for p in style.getProperties(all=True)]

    def rule(r):
        tn = type(r).__name__
        if tn == 'CSSStyleRule':
            return ('style', [s.selectorText for s in r.selectorList], decls(r.style))
        if tn == 'CSSMediaRule':
            return ('media', r.media.mediaText, [rule(x) for x in r.cssRules])
        if tn == 'CSSImportRule':
            return ('import', r.href, r.media.mediaText)
        if tn == 'CSSNamespaceRule':
            return ('namespace', r.prefix, r.namespaceURI)
        if tn == 'CSSPageRule':
            return ('page', r.selectorText, decls(r.style), [rule(x) for x in r.cssRules])
        if tn == 'MarginRule':
            return ('margin-box', r.margin, decls(r.style))
        if tn == 'CSSFontFaceRule':
            return ('font-face', decls(r.style))
        if tn == 'CSSUnknownRule':
            return ('unknown', r.atkeyword)
        if tn == 'CSSComment':
            return ('comment', r.cssText)
        return ('?', tn)
    return [rule(r) for r in sheet.cssRules]


def parse(cssutils, text, comments=True, validate=False):
    cssutils.log.raiseExceptions = False
    p = cssutils.CSSParser(parseComments=comments, validate=validate, fetcher=lambda url: None)
    return p.parseString(text, href='')


_CANON = {}


def canonical(cssutils, sid):
    if sid not in _CANON:
        text, nc = render(STATEMENTS[sid][1])
        sheet = parse(cssutils, text)
        c = [0]
        _CANON[sid] = (text, strip(sem(sheet), c), summary(sheet), c[0])
    return _CANON[sid]


def check_rendering(cssutils, sid, params):
    """None or (kind, description)"""
    tokens = STATEMENTS[sid][1]
    text, ncomments = render(tokens, **params)
    ctext, cproj, csummary, ccomments = canonical(cssutils, sid)
    if csummary != STATEMENTS[sid][2]:
        return 'summary', 'canonical text %r parses to %r, the statement is %r' % (ctext, csummary, STATEMENTS[sid][2])
    sheet = parse(cssutils, text)
    counter = [0]
    got = strip(sem(sheet), counter)
    if lowered(got) != lowered(cproj):
        return 'invariant', 'rendering %r parses to a different DOM than %r: %s' % (text, ctext, projection.diff(lowered(cproj), lowered(got)))
    if got != cproj:
        return 'case-kept', 'rendering %r differs from %r only in the letter case the DOM keeps: %s' % (text, ctext, projection.diff(cproj, got))
    if counter[0] != ncomments:
        return 'comments', 'rendering %r wrote %d comments, the DOM holds %d' % (text, ncomments, counter[0])
    # options
    nocom = parse(cssutils, text, comments=False)
    c2 = [0]
    got2 = strip(sem(nocom), c2)
    if c2[0] or sem(nocom) != got:
        return 'parseComments', 'parseComments=False on %r: %d comments left / DOM differs: %s' % (text, c2[0], projection.diff(got, got2))
    val = parse(cssutils, text, validate=True)
    if sem(val) != sem(sheet):
        return 'validate', 'validate=True changes the DOM of %r: %s' % (text, projection.diff(sem(sheet), sem(val)))
    return None


def run_statement(sid, mode):
    """mode 'uniform': u x r x case x quote x escape in full, no special gap;
            'gap': every gap with every filler, everything else canonical;
            thorough adds 'gap-case' (gap x filler x case x quote), 'gap-uniform' (gap x filler x uniform fillers),
            'gap-escape' (gap x filler x escaped token x style)"""
    cssutils = common.setup_lifted()
    from sx.core import fresh_int
    tokens = STATEMENTS[sid][1]
    ng, nn = ngaps(tokens), nnames(tokens)

    def fn():
        params = dict(u=0, g=-1, v=0, r=0, case=0, quote=0, esc_index=-1, esc_style=0)
        dims = {'uniform': 'urcqe', 'gap': 'g', 'gap-case': 'gcq', 'gap-uniform': 'gur', 'gap-escape': 'ge'}[mode]
        if 'u' in dims:
            params['u'] = fresh_int('u', 0, len(OPT_FILLERS) - 1)
        if 'r' in dims:
            params['r'] = fresh_int('r', 0, len(REQ_FILLERS) - 1)
        if 'c' in dims:
            params['case'] = fresh_int('case', 0, len(CASES) - 1)
        if 'q' in dims:
            params['quote'] = fresh_int('quote', 0, 1)
        if 'e' in dims and nn:
            params['esc_index'] = fresh_int('esc_index', 0, nn - 1)
            params['esc_style'] = fresh_int('esc_style', 1, len(ESCAPES) - 1)
        if 'g' in dims and ng:
            params['g'] = fresh_int('g', 0, ng - 1)
            params['v'] = fresh_int('v', 0, len(OPT_FILLERS) - 1)
        inputs = dict(params, sid=sid)
        common.set_inputs(inputs)
        concrete = {k: int(x) for k, x in params.items()}
        info = {'in': inputs, 'tags': ['statement']}
        bad = check_rendering(cssutils, sid, concrete)
        if bad:
            info['note'] = '%s: %s' % bad
            return False, info
        return True, info

    return common.explore(fn, 'statement(%s,%s)' % (sid, mode), path_timeout_s=120.0, max_cex=600)


def check_pair(cssutils, a, b, u):
    first, second = sorted([a, b], key=lambda s: STATEMENTS[s][0]) if STATEMENTS[a][0] != STATEMENTS[b][0] else (a, b)
    ta, _ = render(STATEMENTS[first][1], u=u)
    tb, _ = render(STATEMENTS[second][1], u=u)
    sep = OPT_FILLERS[u] if '/*' not in OPT_FILLERS[u] else ' '
    both = parse(cssutils, ta + sep + tb)
    c = [0]
    got = strip(sem(both), c)
    want = strip(sem(parse(cssutils, ta)), [0]) + strip(sem(parse(cssutils, tb)), [0])
    if first == second == 'namespace' or (first, second).count('namespace') == 2:
        return None
    if got != want:
        return 'pair', 'sheet %r holds %r, its two statements alone give %r' % (ta + sep + tb, got, want)
    return None


def run_pairs(a):
    cssutils = common.setup_lifted()
    from sx.core import fresh_int

    def fn():
        b = fresh_int('b', 0, len(IDS) - 1)
        u = fresh_int('u', 0, len(OPT_FILLERS) - 1)
        inputs = {'a': a, 'b': b, 'u': u}
        common.set_inputs(inputs)
        info = {'in': inputs, 'tags': ['pair']}
        bad = check_pair(cssutils, a, IDS[int(b)], int(u))
        if bad:
            info['note'] = '%s: %s' % bad
            return False, info
        return True, info

    return common.explore(fn, 'pairs(%s)' % a, path_timeout_s=120.0, max_cex=600)


def jobs(tier):
    out = []
    for sid in IDS:
        out.append(('harness.c02', 'run_statement', dict(sid=sid, mode='uniform')))
        out.append(('harness.c02', 'run_statement', dict(sid=sid, mode='gap')))
        if tier != 'quick':
            for mode in ('gap-case', 'gap-uniform', 'gap-escape'):
                out.append(('harness.c02', 'run_statement', dict(sid=sid, mode=mode)))
        out.append(('harness.c02', 'run_pairs', dict(a=sid)))
    return out


def main(tier):
    rep = common.Report(PROP, tier)
    results = common.run_jobs(jobs(tier), job_timeout_s=900 if tier == 'quick' else 6000)
    rep.add_results(results)
    cases = []
    for r in results:
        cases.extend(r['cex'])
    rep.handle_counterexamples(cases)
    rep.bounds = {'statements': '%d statements (harness/c02.py STATEMENTS); renderings: optional-gap filler %r, required-gap filler %r, case %r, '
                                'quote %r, one escaped name character in style %r, one special gap with its own filler; %s'
                                % (len(IDS), OPT_FILLERS, REQ_FILLERS, CASES, QUOTES, ESCAPES,
                                   'explored as (uniform fillers x case x quote x escape) and (every gap x every filler)' + ('' if tier == 'quick' else
                                   ', plus (gap x filler x case x quote), (gap x filler x uniform fillers), (gap x filler x escaped token x style)')),
                  'pairs': 'every ordered pair of statements in one sheet, six separators'}
    rep.assumptions = ['finite-choice renderings: solver-driven enumeration (leverage about 1)',
                       'SUMMARY structures in harness/c02.py are the independently written meaning of each statement',
                       'the DOM is read through harness/c02.py sem() (public accessors, separators kept, comments counted)']
    rep.outside = ['statements outside the menu, sheets of more than two statements', 'case variation of hash colours, unicode-range, an+b',
                   '@charset (one fixed spelling by definition)', '@variables']
    rep.witness_required = ['statement', 'pair']
    return rep.finish()


# ---------------------------------------------------------------------- replay (unlifted)

DEFAULTS = dict(u=0, g=-1, v=0, r=0, case=0, quote=0, esc_index=-1, esc_style=0)


def minimise(cssutils, sid, params, symptom):
    """reset every rendering dimension that is not needed for the same symptom"""
    cur = dict(params)
    for keys in (('u',), ('r',), ('g', 'v'), ('case',), ('quote',), ('esc_index', 'esc_style')):
        trial = dict(cur)
        for k in keys:
            trial[k] = DEFAULTS[k]
        if trial == cur:
            continue
        bad = check_rendering(cssutils, sid, trial)
        if bad and bad[0] == symptom:
            cur = trial
    return cur


def gap_neighbours(tokens, g):
    """texts of the tokens left and right of gap number g"""
    gi = 0
    for i, t in enumerate(tokens):
        if t in (OPT, REQ, WS):
            if gi == g:
                def txt(x):
                    return x[1] if isinstance(x, tuple) else x
                left = next((txt(x) for x in reversed(tokens[:i]) if x not in (OPT, REQ, WS)), '')
                right = next((txt(x) for x in tokens[i + 1:] if x not in (OPT, REQ, WS)), '')
                return left, right
            gi += 1
    return '', ''


def position_class(tokens, g):
    left, right = gap_neighbours(tokens, g)
    def kind(t, side):
        if t in ('{', '}', ':', ';', ',', '(', ')', '!', '>', '+', '~', '=', '[', ']', '/', '*'):
            return t
        if t.startswith('@'):
            return 'atkeyword'
        if t.endswith('('):
            return 'function('
        return 'word'
    return '%s|%s' % (kind(left, 0), kind(right, 1))


def in_context(tokens, g):
    """is gap g inside a declaration value / selector / function argument ... (coarse, from bracket depth)"""
    gi = 0
    depth_brace = depth_paren = 0
    seen_colon = False
    for t in tokens:
        if t in (OPT, REQ, WS):
            if gi == g:
                if depth_paren:
                    return 'function-args' if depth_brace else 'selector-function-args'
                if depth_brace and seen_colon:
                    return 'value'
                if depth_brace:
                    return 'declaration-name'
                return 'prelude'
            gi += 1
            continue
        txt = t[1] if isinstance(t, tuple) else t
        if txt == '{':
            depth_brace += 1
            seen_colon = False
        elif txt == '}':
            depth_brace -= 1
        elif txt.endswith('(') or txt == '(':
            depth_paren += 1
        elif txt == ')':
            depth_paren -= 1
        elif txt == ':' and depth_brace:
            seen_colon = True
        elif txt == ';':
            seen_colon = False
    return 'none'


def classify(f, detail):
    s = f['symptom']
    if s == 'case-kept':
        return 'case-kept'
    if s == 'parseComments':
        return 'nocomments-value-lost'
    if s == 'comments':
        return 'comment-dropped'
    if s == 'invariant':
        if f['needs'] == 'esc_index':
            return 'escape-kept:' + str(f['escaped_token'])
        if "('descendant', ' ')" in detail and f['space_and_comment']:
            return 'selector-space-comment'
        if f['context'] == 'selector-function-args' or (
                f['sid'] == 'style-functions' and f['needs'] in ('u', 'g') and not f['comment_filler'] and '[0][1][0][2]' in detail):
            return 'pseudo-function-whitespace-kept'
        if f['sid'] == 'style-functions' and f['space_and_comment'] and ': length 5 vs 4' in detail:
            return 'calc-comment-value-lost'
    return 'other'


def replay(case):
    import cssutils
    cssutils.log.setLevel(60)
    inp = case['inputs']
    if 'sid' in inp:
        sid = inp['sid']
        params = {k: v for k, v in inp.items() if k != 'sid'}
        bad = check_rendering(cssutils, sid, params)
        if not bad:
            return {'reproduced': False, 'detail': 'rendering parses to the canonical DOM'}
        tokens = STATEMENTS[sid][1]
        small = minimise(cssutils, sid, params, bad[0])
        bad2 = check_rendering(cssutils, sid, small) or bad
        needed = sorted(k for k in ('u', 'r', 'g', 'case', 'quote', 'esc_index') if small[k] != DEFAULTS[k])
        fillers = ''
        if small['u']:
            fillers += OPT_FILLERS[small['u']]
        if small['r']:
            fillers += REQ_FILLERS[small['r']]
        if small['g'] >= 0:
            gaps = [t for t in tokens if t in (OPT, REQ, WS)]
            fillers += (REQ_FILLERS[small['v'] % len(REQ_FILLERS)] if gaps[small['g']] == REQ else OPT_FILLERS[small['v']])
        fields = {'symptom': bad2[0], 'sid': sid, 'needs': '+'.join(needed),
                  'comment_filler': '/*' in fillers,
                  'space_and_comment': '/*' in fillers and (' /*' in fillers or '*/ ' in fillers),
                  'position': position_class(tokens, small['g']) if small['g'] >= 0 and needed == ['g'] else None,
                  'context': in_context(tokens, small['g']) if small['g'] >= 0 and needed == ['g'] else None,
                  'escape': ESCAPES[small['esc_style']] if small['esc_index'] >= 0 else None,
                  'escaped_token': None, 'case': CASES[small['case']] if small['case'] else None}
        if small['esc_index'] >= 0:
            # which kind of name: preceded by '.', '#', '@namespace', '|' ...
            idx = [i for i, t in enumerate(tokens) if isinstance(t, tuple) and t[0] in ('name', 'ci')][small['esc_index']]
            prev = next((x for x in reversed(tokens[:idx]) if x not in (OPT, REQ, WS)), '')
            prev = prev[1] if isinstance(prev, tuple) else prev
            tok = tokens[idx]
            if tok[0] == 'ci':
                t = tok[1]
                fields['escaped_token'] = ('atkeyword' if t.startswith('@') else 'function:' + t if t.endswith('(') else
                                           'unit' if prev and prev[-1:].isdigit() else 'priority' if prev == '!' else
                                           'pseudo' if prev in (':', '::') else 'media-keyword' if t in ('and', 'min-width') else 'property-name')
            else:
                fields['escaped_token'] = {'.': 'class', '#': 'id', '|': 'namespaced-type', '[': 'attribute'}.get(
                    prev, 'namespace-prefix' if prev == '@namespace' else 'type')
        fields['class'] = classify(fields, bad2[1])
        return {'reproduced': True, 'detail': '%s: %s' % bad2, 'fields': fields}
    bad = check_pair(cssutils, inp['a'], IDS[inp['b']], inp['u'])
    if not bad:
        return {'reproduced': False, 'detail': 'pair composes'}
    return {'reproduced': True, 'detail': '%s: %s' % bad, 'fields': {'symptom': 'pair', 'a': inp['a'], 'b': IDS[inp['b']]}}
