"""DOM projection through public accessors (C02 'observe_at'), usable on the lifted package with
symbolic content and on the unlifted package in replays.  eq() compares two projections and
returns a bool or an sx SymBool (conjunction of the content equalities)."""


def _pv(pv):
    """property value -> list of (type, text) items"""
    out = []
    try:
        for item in pv:
            t, txt = item.type, item.cssText
            if t in ('DIMENSION', 'NUMBER') and txt == '0':
                t = 'ZERO'       # zero lengths are written without unit by design (C18)
            out.append((t, txt))
    except Exception:
        out.append(('?', pv.cssText))
    return out


def _style(style):
    out = []
    for item in style.seq:
        v = item.value
        tn = type(v).__name__
        if tn == 'Property':
            out.append(('prop', v.name, v.literalname, _pv(v.propertyValue), v.priority))
        elif tn == 'CSSComment':
            out.append(('comment', v.cssText))
        else:
            out.append(('other', tn, getattr(v, 'cssText', None) if not isinstance(v, str) else v))
    return out


def _selectors(sl):
    out = []
    for sel in sl:
        items = []
        for it in sel.seq:
            v = it.value
            if isinstance(v, tuple):
                v = list(v)
            items.append((it.type, v))
        out.append(('sel', sel.selectorText, list(sel.specificity), items))
    return out


def _media(ml):
    items = []
    for m in ml:
        items.append(m.mediaText if hasattr(m, 'mediaText') else ('raw-item', getattr(m, 'type', None)))
    return ('media', ml.mediaText, items)


def rule(r):
    tn = type(r).__name__
    if tn == 'CSSStyleRule':
        return ('style', _selectors(r.selectorList), _style(r.style))
    if tn == 'CSSComment':
        return ('comment', r.cssText)
    if tn == 'CSSCharsetRule':
        return ('charset', r.encoding)
    if tn == 'CSSImportRule':
        return ('import', r.href, _media(r.media), r.name)
    if tn == 'CSSNamespaceRule':
        return ('namespace', r.prefix, r.namespaceURI)
    if tn == 'CSSMediaRule':
        return ('mediarule', _media(r.media), r.name, [rule(x) for x in r.cssRules])
    if tn == 'CSSPageRule':
        return ('page', r.selectorText, _style(r.style), [rule(x) for x in r.cssRules])
    if tn == 'MarginRule':
        return ('margin', r.margin, _style(r.style))
    if tn == 'CSSFontFaceRule':
        return ('fontface', _style(r.style))
    if tn == 'CSSVariablesRule':
        return ('variables', [(k, r.variables[k]) for k in r.variables.keys()])
    if tn == 'CSSUnknownRule':
        return ('unknown', r.atkeyword, [(it.type, it.value if isinstance(it.value, str) or
                                          hasattr(it.value, '_sx_symbolic') else
                                          getattr(it.value, 'cssText', None)) for it in r.seq])
    return ('?', tn)


def sheet(s):
    return ('sheet', [rule(r) for r in s.cssRules])


def style(st):
    return ('styledecl', _style(st))


def eq(a, b):
    """structural equality; content equalities may be symbolic"""
    conds = []
    if not _eq(a, b, conds):
        return False
    if not conds:
        return True
    from sx.core import sym_and
    return sym_and(*conds)


def _eq(a, b, conds):
    sa = hasattr(a, '_sx_symbolic')
    sb = hasattr(b, '_sx_symbolic')
    if sa or sb:
        r = (a == b)
        if r is False:
            return False
        if r is not True:
            conds.append(r)
        return True
    if isinstance(a, (list, tuple)) and isinstance(b, (list, tuple)):
        if len(a) != len(b):
            return False
        for x, y in zip(a, b):
            if not _eq(x, y, conds):
                return False
        return True
    return a == b


def diff(a, b, path=''):
    """first difference between two concrete projections (for reports)"""
    if isinstance(a, (list, tuple)) and isinstance(b, (list, tuple)):
        if len(a) != len(b):
            return '%s: length %d vs %d: %r vs %r' % (path, len(a), len(b), a, b)
        for i, (x, y) in enumerate(zip(a, b)):
            d = diff(x, y, '%s[%d]' % (path, i))
            if d:
                return d
        return None
    if a != b:
        return '%s: %r vs %r' % (path, a, b)
    return None
