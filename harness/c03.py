"""C03 - Serialise then parse is lossless; serialisation is a fixpoint.

Content kernels (DESIGN 3 C03a): a carrier sheet with one hole at each content position of the DOM
(string, url(), @import href, @namespace URI, attribute value, identifier positions, comment body,
unknown at-rule prelude, numbers); the hole is filled with a symbolic string of every length <= n
over all of Unicode (reduced alphabet, see evidence) and the text is parsed.  If the source was
accepted without any error or warning (i.e. it is well-formed input), then
  project(parse(cssText(sheet))) == project(sheet)   (content compared character by character)
  cssText(parse(cssText(sheet)))  == cssText(sheet)  (byte-identical fixpoint)
must hold; both are z3 validity queries over the characters of the hole.
Node-level kernels do the same for rule.cssText / style.cssText / selectorText / mediaText /
PropertyValue.cssText read from the parsed sheet and set back on a fresh object.
"""
from . import common, projection

PROP = 'C03'

# (name, prefix, suffix)
KERNELS = [
    ('string-dq', 'a{b:"', '"}'), ('string-sq', "a{b:'", "'}"),
    ('url-bare', 'a{b:url(', ')}'), ('url-dq', 'a{b:url("', '")}'), ('url-sq', "a{b:url('", "')}"),
    ('import-str', '@import "', '";'), ('import-url', '@import url(', ');'),
    ('import-media', '@import "x" ', ';'), ('import-name', '@import "x" tv "', '";'),
    ('namespace-uri', '@namespace p "', '";a{b:c}'), ('namespace-prefix', '@namespace ', ' "u";a{b:c}'),
    ('attr-dq', 'a[b="', '"]{c:d}'), ('attr-bare', 'a[b=', ']{c:d}'), ('attr-name', 'a[', ']{c:d}'),
    ('value-ident', 'a{b:', '}'), ('value-ident2', 'a{b:c ', '}'), ('class', '.', '{c:d}'),
    ('id', '#', '{c:d}'), ('type', '', '{c:d}'), ('pseudo', 'a:', '{c:d}'), ('pseudo-el', 'a::', '{c:d}'),
    ('propname', 'a{', ':c}'), ('atname', '@', ' x;'), ('atname-block', '@', '{a{b:c}}'),
    ('media-type', '@media ', '{a{b:c}}'), ('media-feature', '@media tv and (', '){a{b:c}}'),
    ('comment-top', '/*', '*/a{b:c}'), ('comment-decl', 'a{/*', '*/b:c}'), ('comment-last', 'a{b:c;/*', '*/}'),
    ('comment-value', 'a{b:c/*', '*/}'), ('comment-sel', 'a/*', '*/b{c:d}'),
    ('unknown-prelude', '@x ', ';'), ('unknown-block', '@x{', '}'),
    ('number', 'a{b:1', '}'), ('number2', 'a{b:', '1}'), ('dimension', 'a{b:1.5', '}'), ('hash', 'a{b:#', '}'),
    ('func-arg', 'a{b:f(', ')}'), ('priority', 'a{b:c!', '}'), ('selector-comb', 'a', 'b{c:d}'),
    ('two-decls', 'a{b:c;', ':e}'), ('page-sel', '@page ', '{b:c}'), ('fontface', '@font-face{b:', '}'),
    ('variables', '@variables{', ':c}'), ('var-use', 'a{b:var(', ')}'),
    ('escape-ident', 'a{b:\\', '}'), ('escape-class', '.\\', '{c:d}'), ('escape-hex', 'a{b:\\4', 'x}'),
    ('unicode-range', 'a{b:U+', '}'), ('calc', 'a{b:calc(1 ', ' 2)}'),
]

CORE = ['string-dq', 'string-sq', 'url-bare', 'url-dq', 'value-ident', 'class', 'comment-decl',
        'comment-last', 'attr-dq', 'escape-ident', 'escape-class', 'unknown-prelude', 'number',
        'import-str', 'propname', 'type']


def lexically_complete(cssutils, text):
    """no construct is left open: no INVALID token, nothing completed at the end of input,
    brackets / braces / parentheses balanced"""
    from cssutils.tokenize2 import Tokenizer
    tk = Tokenizer()
    toks = list(tk.tokenize(text, fullsheet=False))
    full = list(tk.tokenize(text, fullsheet=True))
    if len(full) != len(toks) + 1:
        return False
    stack = []
    closer = {'{': '}', '[': ']', '(': ')'}
    for (ty, val, _, _), f in zip(toks, full):
        if ty != f[0] or ty == 'INVALID':
            return False
        if ty == 'FUNCTION':
            stack.append(')')
        elif ty == 'CHAR':
            if val in ('{', '[', '('):
                for o, c in closer.items():
                    if val == o:
                        stack.append(c)
            elif val in ('}', ']', ')'):
                if not stack:
                    return False
                want = stack.pop()
                if not (val == want):
                    return False
    return not stack


def roundtrip(cssutils, text, log, level='sheet'):
    """returns dict(stage, exc, wellformed, ok (bool/SymBool), why)"""
    parser = cssutils.CSSParser(validate=False, fetcher=lambda url: None)
    log.clear() if hasattr(log, 'clear') else None
    s1 = parser.parseString(text)
    problems = log.problems()
    if problems or not lexically_complete(cssutils, text):
        return {'wellformed': False}
    t1 = s1.cssText
    p1 = projection.sheet(s1)
    s2 = parser.parseString(t1)
    p2 = projection.sheet(s2)
    t2 = s2.cssText
    same_dom = projection.eq(p1, p2)
    same_text = (t1 == t2)
    return {'wellformed': True, 'p1': p1, 'p2': p2, 't1': t1, 't2': t2,
            'same_dom': same_dom, 'same_text': same_text}


def node_roundtrip(cssutils, text, log):
    """node-level: read each node's text and set it back on a fresh object of the same class"""
    parser = cssutils.CSSParser(validate=False, fetcher=lambda url: None)
    log.clear()
    s1 = parser.parseString(text)
    if log.problems() or not lexically_complete(cssutils, text):
        return {'wellformed': False}
    checks = []
    css = cssutils.css
    for r in s1.cssRules:
        tn = type(r).__name__
        txt = r.cssText
        if tn == 'CSSStyleRule' and r.selectorList._getUsedUris():
            continue    # a fresh rule has no namespace context: not the same experiment
        if tn in ('CSSStyleRule', 'CSSComment', 'CSSMediaRule', 'CSSPageRule', 'CSSFontFaceRule',
                  'CSSUnknownRule', 'CSSImportRule', 'CSSNamespaceRule', 'CSSCharsetRule'):
            if tn == 'CSSNamespaceRule':
                fresh = type(r)(cssText=txt)
            else:
                fresh = type(r)()
                fresh.cssText = txt
            checks.append(('rule:' + tn, projection.eq(projection.rule(r), projection.rule(fresh)),
                           fresh.cssText == txt))
        if tn == 'CSSStyleRule':
            st = css.CSSStyleDeclaration(cssText=r.style.cssText)
            checks.append(('style', projection.eq(projection.style(r.style), projection.style(st)),
                           st.cssText == r.style.cssText))
            if not r.selectorList._getUsedUris():
                sl = css.SelectorList(selectorText=r.selectorText)
                checks.append(('selectorText', projection.eq(projection._selectors(r.selectorList),
                                                             projection._selectors(sl)),
                               sl.selectorText == r.selectorText))
            for p in r.style.getProperties(all=True):
                pv = css.PropertyValue(cssText=p.propertyValue.cssText)
                checks.append(('propertyvalue', projection.eq(projection._pv(p.propertyValue), projection._pv(pv)),
                               pv.cssText == p.propertyValue.cssText))
        if tn in ('CSSMediaRule', 'CSSImportRule'):
            ml = cssutils.stylesheets.MediaList(mediaText=r.media.mediaText)
            checks.append(('mediaText', projection.eq(projection._media(r.media), projection._media(ml)),
                           ml.mediaText == r.media.mediaText))
    return {'wellformed': True, 'checks': checks}


class _StubLogView:
    def __init__(self, stub):
        self.stub = stub

    def clear(self):
        del self.stub.records[:]

    def problems(self):
        return [r for r in self.stub.records if r in ('warning', 'error', 'critical')]


def run_kernel(kindex, n, level='sheet', path_timeout_s=60.0):
    cssutils = common.setup_lifted()
    from sx.symstr import fresh_str, reduced_alphabet
    from sx.core import sym_and
    import xml.dom
    name, prefix, suffix = KERNELS[kindex]
    from sx.mask import Mask
    amask = reduced_alphabet().minus(Mask.rng(0xD800, 0xDFFF))
    cssutils.ser.prefs.keepEmptyRules = True
    cssutils.ser.prefs.resolveVariables = False
    log = _StubLogView(common.LOGSTUB)

    def fn():
        s = fresh_str(n, mask=amask)
        text = prefix + s + suffix
        inputs = {'kernel': name, 'text': text, 'level': level}
        common.set_inputs(inputs)
        info = {'in': inputs, 'tags': []}
        cssutils.log.raiseExceptions = True
        try:
            if level == 'sheet':
                r = roundtrip(cssutils, text, log)
            else:
                r = node_roundtrip(cssutils, text, log)
        except xml.dom.DOMException as e:
            if level == 'node':
                info['note'] = 'setting a node\'s own text back raised %s: %s' % (type(e).__name__, str(e)[:150])
                info['tags'].append('node-rejected')
                return False, info
            info['note'] = 'round trip raised %s' % type(e).__name__
            return False, info
        except Exception as e:
            info['note'] = 'round trip raised %s: %s' % (type(e).__name__, str(e)[:150])
            info['tags'].append('crash')
            return False, info
        if not r['wellformed']:
            info['tags'].append('malformed-source')
            return True, info
        info['tags'].append('wellformed-source')
        if level == 'sheet':
            if r['same_dom'] is False:
                info['note'] = 'DOM structure differs after round trip'
                return False, info
            if r['same_text'] is False:
                info['note'] = 'second serialisation differs in length/structure'
                return False, info
            return sym_and(r['same_dom'], r['same_text']), info
        conds = []
        for what, same_dom, same_text in r['checks']:
            if same_dom is False or same_text is False:
                info['note'] = '%s differs when its text is set back' % what
                return False, info
            conds.extend([same_dom, same_text])
        return sym_and(*conds), info

    return common.explore(fn, 'kernel(%s,n=%d,%s)' % (name, n, level), path_timeout_s=path_timeout_s)


def jobs(tier):
    out = []
    nall = 1 if tier == 'quick' else 2
    ncore = 2 if tier == 'quick' else 3
    for i, (name, pre, suf) in enumerate(KERNELS):
        top = ncore if name in CORE else nall
        for n in range(0, top + 1):
            out.append(('harness.c03', 'run_kernel', dict(kindex=i, n=n, level='sheet')))
        for n in range(0, nall + 1):
            out.append(('harness.c03', 'run_kernel', dict(kindex=i, n=n, level='node')))
    out.sort(key=lambda j: -j[2]['n'])
    return out


def main(tier):
    rep = common.Report(PROP, tier)
    results = common.run_jobs(jobs(tier))
    rep.add_results(results)
    cases = []
    for r in results:
        cases.extend(r['cex'])
        for t in r['timeouts']:
            if t.get('inputs'):
                cases.append({'job': r['job'], 'inputs': t['inputs'], 'note': 'path time budget exceeded'})
    rep.handle_counterexamples(cases)
    rep.bounds = {
        'kernels': '%d carrier sheets with one hole each (harness/c03.py KERNELS)' % len(KERNELS),
        'hole': 'every string of length <= %s over the reduced alphabet' % (
            '1 (2 for %d core kernels)' % len(CORE) if tier == 'quick' else '2 (3 for %d core kernels)' % len(CORE)),
        'levels': 'whole sheet; node level (rule / style / selector list / media list / property value)',
    }
    rep.assumptions = [
        'only sources that the parser accepts without error or warning count as well-formed input',
        'keepEmptyRules=True so that empty rules are not dropped by the default preference',
        'reduced alphabet: all Unicode scalar values (no lone surrogates) except non-ASCII cased letters (28 representatives kept)',
        'well-formed = accepted without log message, no INVALID token, nothing completed at end of input, brackets balanced',
        'resolveVariables=False so that @variables rules are serialised',
        'validation off (C13 covers validation)',
    ]
    rep.stubs = ['logging: StubLog', 'fetcher: returns None', 'codecs: sx/pycodecs.py']
    rep.outside = ['content longer than the bound', 'DOMs not assembled from the listed carriers',
                   'structure kernels built through DOM edits (C09/C10 harnesses)']
    rep.witness_required = ['wellformed-source']
    return rep.finish()


# ---------------------------------------------------------------------- replay (unlifted)

def features(kernel, text):
    """input features used to tell the recorded findings apart"""
    import re
    pre, suf = next((p, q) for n, p, q in KERNELS if n == kernel)
    hole = text[len(pre):len(text) - len(suf)] if len(text) >= len(pre) + len(suf) else text
    special = False
    for m in re.finditer(r'\\([0-9a-fA-F]{1,6})|\\([^\n\r\f0-9a-fA-F])', text):
        c = chr(int(m.group(1), 16)) if m.group(1) and int(m.group(1), 16) <= 0x10FFFF else (m.group(2) or '')
        if c and not (c.isascii() and (c.isalpha() or c == '_')) and ord(c) < 0x80:
            special = True
    return {
        'special_escape': special,
        'comment_linebreak': kernel.startswith('comment') and any(c in hole for c in '\n\r\f'),
        'py_whitespace': any(c.isspace() and c not in ' \t\r\n\f' for c in text),
        'string_backslash': kernel in ('string-dq', 'string-sq', 'url-dq', 'url-sq', 'url-bare', 'attr-dq',
                                       'import-str', 'import-url', 'import-name', 'namespace-uri',
                                       'func-arg') and '\\' in hole,
        'media_empty_expression': kernel == 'media-feature' and (
            not hole.strip(' \t\r\n\f') or hole.rstrip(' \t\r\n\f').endswith(':')),
        'leading_feff': text.startswith('\ufeff'),
    }


def replay(case):
    import cssutils
    import xml.dom
    inp = case['inputs']
    cssutils.ser.prefs.keepEmptyRules = True
    cssutils.ser.prefs.resolveVariables = False
    log = common.CaptureLog(cssutils)
    cssutils.log.raiseExceptions = True
    text = inp['text']
    try:
        if inp['level'] == 'sheet':
            r = roundtrip(cssutils, text, log)
        else:
            r = node_roundtrip(cssutils, text, log)
    except Exception as e:
        import traceback
        site = None
        for fr in reversed(traceback.extract_tb(e.__traceback__)):
            if '/cssutils/' in fr.filename:
                site = '%s:%s' % (fr.filename.split('/cssutils/')[-1], fr.name)
                break
        return {'reproduced': True,
                'detail': 'round trip of %r (%s level) raised %s: %s at %s' % (text, inp['level'], type(e).__name__, str(e)[:200], site),
                'fields': dict(features(inp['kernel'], text), symptom='raises', exc=type(e).__name__,
                               kernel=inp['kernel'], level=inp['level'], site=site, text=text)}
    if not r['wellformed']:
        return {'reproduced': False, 'detail': 'source %r is reported malformed' % text}
    if inp['level'] == 'sheet':
        if r['same_dom'] is True and r['same_text'] is True:
            return {'reproduced': False, 'detail': 'round trip of %r is lossless: %r' % (text, r['t1'])}
        d = projection.diff(r['p1'], r['p2'])
        return {'reproduced': True,
                'detail': 'source %r\n   serialised   %r\n   reserialised %r\n   DOM difference: %s'
                          % (text, r['t1'], r['t2'], d),
                'fields': dict(features(inp['kernel'], text),
                               symptom='dom' if r['same_dom'] is not True else 'text',
                               leading_feff=r['t1'].startswith(b'\xef\xbb\xbf'),
                               kernel=inp['kernel'], level='sheet', text=text,
                               serialised=r['t1'].decode('utf-8', 'replace'))}
    bad = [(w, a, b) for w, a, b in r['checks'] if a is not True or b is not True]
    if not bad:
        return {'reproduced': False, 'detail': 'node-level round trips of %r are lossless' % text}
    return {'reproduced': True,
            'detail': 'source %r: node text set back on a fresh object differs for %s' % (text, [w for w, _, _ in bad]),
            'fields': dict(features(inp['kernel'], text), symptom='node', what=bad[0][0],
                           kernel=inp['kernel'], level='node', text=text)}
