"""Shared harness machinery: exploring jobs in worker processes, concretising counterexamples,
replaying them on the unlifted package, matching known findings, writing evidence."""

import hashlib
import json
import multiprocessing
import os
import re
import subprocess
import sys
import time
import traceback

VERIF = os.path.dirname(os.path.dirname(os.path.abspath(__file__)))
SX_ROOT = os.environ.get('SX_ROOT', '/repo')
NPROC = int(os.environ.get('VERIF_NPROC', '16'))

EXIT_OK, EXIT_VIOLATION, EXIT_HARNESS = 0, 1, 3


# ---------------------------------------------------------------------- in-worker side

def setup_lifted():
    """install the lifting hook and import the package under test with logging stubbed"""
    sys.path.insert(0, VERIF) if VERIF not in sys.path else None
    from sx import lift
    lift.install(SX_ROOT)
    import cssutils
    global LOGSTUB
    LOGSTUB = StubLog()
    cssutils.log.setLog(LOGSTUB)
    return cssutils


LOGSTUB = None


class CaptureLog:
    """replay side: capture the levels logged by the unlifted package"""

    def __init__(self, cssutils):
        import logging
        self.records = []
        outer = self

        class H(logging.Handler):
            def emit(self, record):
                outer.records.append(record.levelname.lower())
        self.logger = logging.getLogger('CSSUTILS-VERIF-REPLAY')
        self.logger.handlers[:] = [H()]
        self.logger.setLevel(logging.DEBUG)
        self.logger.propagate = False
        cssutils.log.setLog(self.logger)

    def clear(self):
        del self.records[:]

    def problems(self):
        return [r for r in self.records if r in ('warning', 'error', 'critical')]


class StubLog:
    """stands in for logging.Logger: records (level) and formats nothing"""

    def __init__(self):
        self.records = []
        self.level = 0

    def _rec(self, level, msg):
        self.records.append(level)

    def debug(self, msg, *a, **k):
        self._rec('debug', msg)

    def info(self, msg, *a, **k):
        self._rec('info', msg)

    def warning(self, msg, *a, **k):
        self._rec('warning', msg)

    warn = warning

    def error(self, msg, *a, **k):
        self._rec('error', msg)

    def critical(self, msg, *a, **k):
        self._rec('critical', msg)

    fatal = critical

    def setLevel(self, level):
        self.level = level

    def getEffectiveLevel(self):
        return self.level

    def addHandler(self, h):
        pass

    def removeHandler(self, h):
        pass


def concretise(obj, model):
    from sx.core import SymInt, SymBool
    from sx.symstr import SymStr
    import z3
    if isinstance(obj, SymStr):
        v = obj.model_value(model)
        return {'__bytes__': v.hex()} if isinstance(v, bytes) else v
    if isinstance(obj, SymInt):
        return model.eval(obj.e, model_completion=True).as_long()
    if isinstance(obj, SymBool):
        return bool(z3.is_true(model.eval(obj.e, model_completion=True)))
    if isinstance(obj, bytes):
        return {'__bytes__': obj.hex()}
    if isinstance(obj, dict):
        return {k: concretise(v, model) for k, v in obj.items()}
    if isinstance(obj, (list, tuple)):
        return [concretise(v, model) for v in obj]
    if isinstance(obj, (str, int, float, bool)) or obj is None:
        return obj
    return repr(obj)


def unjson(obj):
    """inverse of the bytes encoding used by concretise"""
    if isinstance(obj, dict):
        if set(obj) == {'__bytes__'}:
            return bytes.fromhex(obj['__bytes__'])
        return {k: unjson(v) for k, v in obj.items()}
    if isinstance(obj, list):
        return [unjson(v) for v in obj]
    return obj


_CURRENT = {'in': None}


def set_inputs(d):
    """harness functions call this first so that a path that times out or aborts still has a
    description of its symbolic inputs"""
    _CURRENT['in'] = d


def explore(fn, job, *, timeout_ms=10000, path_timeout_s=30.0, max_paths=None, wall_budget_s=None,
            max_cex=40, max_samples=3, realise_cap=64):
    """Explore fn with a fresh engine.  fn returns (post, info); info is a dict with
    'in' (symbolic inputs), optional 'tags' (coverage witnesses) and 'note'."""
    from sx.core import Engine
    import z3
    eng = Engine(timeout_ms=timeout_ms, path_timeout_s=path_timeout_s, max_paths=max_paths,
                 wall_budget_s=wall_budget_s, realise_cap=realise_cap)
    res = {'job': job, 'cex': [], 'timeouts': [], 'tags': {}, 'samples': [], 'functions': [],
           'errors': [], 'cex_total': 0}
    funcs = set()
    state = {'n': 0}

    def profiler(frame, event, arg):
        if event == 'call':
            co = frame.f_code
            fnm = co.co_filename
            if fnm.startswith(SX_ROOT) and '/tests/' not in fnm:
                funcs.add('%s:%s' % (fnm[len(SX_ROOT) + 1:], co.co_qualname))

    def wrapped():
        state['n'] += 1
        _CURRENT['in'] = None
        if state['n'] <= 2 or state['n'] % 97 == 0:
            sys.setprofile(profiler)
            try:
                return fn()
            finally:
                sys.setprofile(None)
        return fn()

    def on_path(kind, payload):
        if kind == 'ok':
            info = payload or {}
            for t in info.get('tags', ()):
                res['tags'][t] = res['tags'].get(t, 0) + 1
            if len(res['samples']) < max_samples and 'in' in info:
                try:
                    res['samples'].append({'inputs': concretise(info['in'], eng.get_model()),
                                           'tags': list(info.get('tags', ()))[:8]})
                except BaseException:
                    pass
        elif kind == 'cex':
            res['cex_total'] += 1
            model, info = payload
            info = info or {}
            for t in info.get('tags', ()):
                res['tags'][t] = res['tags'].get(t, 0) + 1
            if len(res['cex']) < max_cex:
                res['cex'].append({'job': job, 'inputs': concretise(info.get('in'), model),
                                   'note': concretise(info.get('note'), model)})
        elif kind == 'timeout':
            model, info = payload
            ent = {'job': job, 'model': str(model)[:500] if model is not None else None}
            if model is not None and _CURRENT['in'] is not None:
                try:
                    ent['inputs'] = concretise(_CURRENT['in'], model)
                except BaseException:
                    pass
            res['timeouts'].append(ent)
        elif kind == 'inconclusive':
            pass

    t0 = time.time()
    try:
        eng.explore(wrapped, on_path)
    except Exception as e:
        try:
            msg = str(e)
        except BaseException:
            msg = '<message holds a symbolic value: %r>' % (getattr(e, 'args', None),)
        try:
            tb = traceback.format_exc()[-1500:]
        except BaseException:
            tb = ''.join(traceback.format_tb(e.__traceback__))[-1500:]
        res['errors'].append('%s: %s\n%s' % (type(e).__name__, msg, tb))
    res['stats'] = eng.stats()
    res['wall_s'] = round(time.time() - t0, 2)
    res['functions'] = sorted(funcs)
    return res


# ---------------------------------------------------------------------- parent side

def _worker(args):
    modname, funcname, kwargs = args
    try:
        import importlib
        mod = importlib.import_module(modname)
        return getattr(mod, funcname)(**kwargs)
    except BaseException as e:
        return {'job': '%s.%s%r' % (modname, funcname, kwargs), 'cex': [], 'timeouts': [],
                'tags': {}, 'samples': [], 'functions': [], 'cex_total': 0,
                'errors': ['%s: %s\n%s' % (type(e).__name__, e, traceback.format_exc()[-2000:])],
                'stats': {'paths': 0, 'decisions': 0, 'queries': 0, 'solver_time_s': 0,
                          'unknown_queries': 0, 'inconclusive_paths': [], 'realisations': 0,
                          'budget_exhausted': False}, 'wall_s': 0}


JOB_TIMEOUT_S = float(os.environ.get('VERIF_JOB_TIMEOUT', '1500'))


def _child(conn, args):
    try:
        conn.send(_worker(args))
    except BaseException as e:       # pragma: no cover
        try:
            conn.send(_failed(args, 'worker failed: %r' % (e,)))
        except BaseException:
            pass
    finally:
        conn.close()


def _failed(args, msg, inconclusive=False):
    modname, funcname, kwargs = args
    r = {'job': '%s.%s%r' % (modname, funcname, kwargs), 'cex': [], 'timeouts': [], 'tags': {},
         'samples': [], 'functions': [], 'cex_total': 0, 'errors': [] if inconclusive else [msg],
         'stats': {'paths': 0, 'decisions': 0, 'queries': 0, 'solver_time_s': 0, 'unknown_queries': 0,
                   'inconclusive_paths': [[msg, 1]] if inconclusive else [], 'realisations': 0,
                   'budget_exhausted': inconclusive}, 'wall_s': 0}
    return r


def run_jobs(jobs, nproc=None, job_timeout_s=None):
    """jobs: list of (module, function, kwargs); each runs in its own forked process with a hard
    wall-clock limit (a job that exceeds it is killed and reported as inconclusive, never as a pass).
    Returns the list of result dicts in job order."""
    nproc = nproc or NPROC
    job_timeout_s = job_timeout_s or JOB_TIMEOUT_S
    ctx = multiprocessing.get_context('fork')
    results = [None] * len(jobs)
    pending = list(range(len(jobs)))
    running = {}      # index -> (process, conn, start)
    while pending or running:
        while pending and len(running) < nproc:
            i = pending.pop(0)
            parent, child = ctx.Pipe(duplex=False)
            p = ctx.Process(target=_child, args=(child, jobs[i]))
            p.daemon = True
            p.start()
            child.close()
            running[i] = (p, parent, time.time())
        done = []
        for i, (p, conn, t0) in running.items():
            if conn.poll(0):
                try:
                    results[i] = conn.recv()
                except EOFError:
                    results[i] = _failed(jobs[i], 'worker died without a result')
                done.append(i)
            elif not p.is_alive():
                if conn.poll(0.2):
                    try:
                        results[i] = conn.recv()
                    except EOFError:
                        results[i] = _failed(jobs[i], 'worker died without a result')
                else:
                    results[i] = _failed(jobs[i], 'worker died without a result (exit code %s)' % p.exitcode)
                done.append(i)
            elif time.time() - t0 > job_timeout_s:
                p.terminate()
                results[i] = _failed(jobs[i], 'job exceeded its wall-clock limit of %ds and was stopped'
                                     % job_timeout_s, inconclusive=True)
                done.append(i)
        for i in done:
            p, conn, _ = running.pop(i)
            try:
                conn.close()
            except Exception:
                pass
            p.join(timeout=1)
            if p.is_alive():
                p.kill()
        if not done:
            time.sleep(0.05)
    return results


def merge_stats(results):
    tot = {'paths': 0, 'decisions': 0, 'queries': 0, 'solver_time_s': 0.0, 'unknown_queries': 0,
           'realisations': 0}
    inconc = {}
    budget = []
    for r in results:
        st = r['stats']
        for k in tot:
            tot[k] += st.get(k, 0)
        for reason, n in st.get('inconclusive_paths', []):
            reason = '%s [job %s]' % (reason, r.get('job'))
            inconc[reason] = inconc.get(reason, 0) + n
        if st.get('budget_exhausted'):
            budget.append(r['job'])
    tot['solver_time_s'] = round(tot['solver_time_s'], 2)
    tot['inconclusive_paths'] = sorted(inconc.items(), key=lambda x: -x[1])
    tot['budget_exhausted_jobs'] = budget
    return tot


def load_known(prop):
    fn = os.path.join(VERIF, 'known_findings.json')
    if not os.path.exists(fn):
        return []
    with open(fn) as f:
        data = json.load(f)
    return [k for k in data.get('findings', []) if k.get('property') == prop
            and k.get('status', 'known') == 'known']


def match_known(known, fields):
    """a finding matches when every key of its 'match' agrees with the case's fields"""
    for k in known:
        ok = True
        for key, want in k.get('match', {}).items():
            have = fields.get(key)
            if isinstance(want, dict) and 're' in want:
                if not isinstance(have, str) or re.search(want['re'], have, re.S) is None:
                    ok = False
                    break
            elif isinstance(want, dict) and 'in' in want:
                if have not in want['in']:
                    ok = False
                    break
            elif have != want:
                ok = False
                break
        if ok:
            return k
    return None


def replay_cases(prop, cases, timeout_s=600):
    """replay counterexamples on the unlifted package in a fresh interpreter.
    Returns list of dicts {reproduced, detail, fields}."""
    if not cases:
        return []
    d = os.path.join(VERIF, 'replays', prop)
    os.makedirs(d, exist_ok=True)
    paths = []
    for c in cases:
        blob = json.dumps({'property': prop, 'case': c}, sort_keys=True, ensure_ascii=True)
        h = hashlib.sha1(blob.encode()).hexdigest()[:12]
        p = os.path.join(d, h + '.json')
        with open(p, 'w') as f:
            f.write(blob)
        paths.append(p)
    out = []
    B = 50
    for i in range(0, len(paths), B):
        chunk = paths[i:i + B]
        proc = subprocess.run([sys.executable, '-m', 'harness.replay_main', prop] + chunk,
                              cwd=VERIF, capture_output=True, text=True, timeout=timeout_s,
                              env=dict(os.environ, PYTHONPATH=SX_ROOT, PYTHONDONTWRITEBYTECODE='1'))
        got = None
        for line in proc.stdout.splitlines():
            if line.startswith('REPLAY-RESULTS '):
                got = json.loads(line[len('REPLAY-RESULTS '):])
        if got is None or len(got) != len(chunk):
            raise RuntimeError('replay subprocess failed: %s\n%s' % (proc.stdout[-2000:], proc.stderr[-2000:]))
        out.extend(got)
    for o, p in zip(out, paths):
        o['path'] = p
    return out


class Report:
    """collects the outcome of one check run and writes the evidence file"""

    def __init__(self, prop, tier, level='model_checking'):
        self.prop = prop
        self.tier = tier
        self.level = level
        self.t0 = time.time()
        self.results = []
        self.violations = []       # (path, detail)
        self.known_hits = {}       # id -> [what, count]
        self.harness_errors = []
        self.replays = 0
        self.extra = {}
        self.assumptions = []
        self.bounds = {}
        self.outside = []
        self.stubs = []
        self.witness_required = []
        self.samples = []
        self.obligations = []      # additional (name, status) entries, e.g. RX lemmas

    def add_results(self, results):
        self.results.extend(results)
        for r in results:
            for e in r.get('errors', []):
                self.harness_errors.append('%s: %s' % (r.get('job'), e))

    def handle_counterexamples(self, cases, fields_hint=None):
        """replay, classify, print.  cases: list of case dicts"""
        known = load_known(self.prop)
        # de-duplicate identical cases
        seen = set()
        uniq = []
        for c in cases:
            key = json.dumps(c, sort_keys=True)
            if key not in seen:
                seen.add(key)
                uniq.append(c)
        reps = replay_cases(self.prop, uniq)
        self.replays += len(reps)
        for c, r in zip(uniq, reps):
            if not r.get('reproduced') and (r.get('fields') or {}).get('unreachable'):
                # pre-state of an inductive-step counterexample that no history reaches
                self.extra['unreachable_counterexamples_dropped'] = \
                    self.extra.get('unreachable_counterexamples_dropped', 0) + 1
                continue
            if not r.get('reproduced') and c.get('note') == 'path time budget exceeded':
                # slow symbolic path, terminates concretely: not a hang; the path stays undecided
                self.extra['path_timeouts_not_reproduced'] = \
                    self.extra.get('path_timeouts_not_reproduced', 0) + 1
                continue
            if not r.get('reproduced'):
                self.harness_errors.append('counterexample did not reproduce on the unlifted package: %s -> %s'
                                           % (json.dumps(c)[:400], r.get('detail')))
                continue
            fields = dict(r.get('fields') or {})
            fields.setdefault('job', c.get('job'))
            k = match_known(known, fields)
            if k is not None:
                ent = self.known_hits.setdefault(k['id'], [k.get('what', ''), 0])
                ent[1] += 1
            else:
                self.violations.append((r['path'], r.get('detail'), fields))

    def finish(self):
        st = merge_stats(self.results) if self.results else {
            'paths': 0, 'decisions': 0, 'queries': 0, 'solver_time_s': 0, 'unknown_queries': 0,
            'realisations': 0, 'inconclusive_paths': [], 'budget_exhausted_jobs': []}
        tags = {}
        funcs = set()
        samples = list(self.samples)
        for r in self.results:
            for t, n in r.get('tags', {}).items():
                tags[t] = tags.get(t, 0) + n
            funcs.update(r.get('functions', []))
            for s in r.get('samples', [])[:1]:
                if len(samples) < 12:
                    samples.append({'job': r['job'], **s})
        missing = [w for w in self.witness_required if not tags.get(w)]
        if missing:
            self.harness_errors.append('coverage witnesses not reached: %s' % missing)
        conclusive = (not st['inconclusive_paths'] and not st['budget_exhausted_jobs']
                      and not st['unknown_queries']
                      and not self.extra.get('path_timeouts_not_reproduced')
                      and all(s == 'discharged' for _, s in self.obligations))
        for kid, (what, n) in sorted(self.known_hits.items()):
            print('KNOWN-FINDING: property=%s %s [%s; %d counterexample(s) this run]'
                  % (self.prop, what, kid, n))
        for path, detail, fields in self.violations:
            print('VIOLATION property=%s replay=%s' % (self.prop, path))
            print('  detail: %s' % (str(detail)[:600],))
        for e in self.harness_errors:
            print('HARNESS-ERROR: %s' % e[:3000], file=sys.stderr)
        if not samples:
            samples = [{'note': 'no path samples recorded'}]
        ev = {
            'property_id': self.prop, 'tier': self.tier,
            'seed': int(os.environ.get('VERIF_SEED', '0') or 0),
            'level': self.level,
            'coverage': {
                'states': max(st['paths'], 0), 'transitions': st['decisions'],
                'traces_validated_against_impl': self.replays,
                'samples': samples,
                'queries': st['queries'], 'solver_time_s': st['solver_time_s'],
                'unknown_queries': st['unknown_queries'],
                'inconclusive_paths': st['inconclusive_paths'],
                'budget_exhausted_jobs': st['budget_exhausted_jobs'],
                'realisations': st['realisations'],
                'jobs': len(self.results),
                'functions_encoded': sorted(funcs),
                'coverage_witnesses': tags,
                'bounds': self.bounds,
                'stubs': self.stubs,
                'outside_claim': self.outside,
                'obligations_extra': [{'name': n, 'status': s} for n, s in self.obligations],
                'known_findings_hit': {k: v[1] for k, v in self.known_hits.items()},
                'conclusive': conclusive,
                'harness_errors': self.harness_errors[:20],
                'slowest_jobs': [{'job': r['job'], 'wall_s': r.get('wall_s'), 'paths': r['stats']['paths'],
                                  'solver_time_s': r['stats']['solver_time_s']}
                                 for r in sorted(self.results, key=lambda r: -(r.get('wall_s') or 0))[:12]],
                'exhaustive': False,
                **self.extra,
            },
            'assumptions': self.assumptions,
            'wall_s': round(time.time() - self.t0, 2),
            'violations': len(self.violations),
        }
        os.makedirs(os.path.join(VERIF, 'evidence'), exist_ok=True)
        with open(os.path.join(VERIF, 'evidence', self.prop + '.json'), 'w') as f:
            json.dump(ev, f, indent=1, ensure_ascii=True, default=str)
        print('%s tier=%s paths=%d decisions=%d queries=%d solver=%.1fs replays=%d known=%d violations=%d '
              'inconclusive=%d conclusive=%s wall=%.0fs'
              % (self.prop, self.tier, st['paths'], st['decisions'], st['queries'],
                 st['solver_time_s'], self.replays, len(self.known_hits), len(self.violations),
                 sum(n for _, n in st['inconclusive_paths']), conclusive, time.time() - self.t0))
        if st['inconclusive_paths']:
            for reason, n in st['inconclusive_paths'][:8]:
                print('  inconclusive x%d: %s' % (n, reason))
        if self.harness_errors:
            return EXIT_HARNESS
        if self.violations:
            return EXIT_VIOLATION
        return EXIT_OK
