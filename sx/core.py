"""SX core: a dynamic symbolic executor over z3 (DESIGN.md section 2.1).

The harness function is re-executed from the start for every path.  Decisions that depend on
symbolic values go through Engine.branch(), which asks the solver which sides are feasible under
the current path condition, takes one and remembers whether the other is still open.  Depth-first
search by re-execution with a decision trail; one incremental z3 solver per engine.

Control-flow signals derive from BaseException so that ``except Exception`` in the code under
test (and in harnesses) does not swallow them.
"""

import signal
import time

import z3

__all__ = [
    'Engine', 'SymBool', 'SymInt', 'Inconclusive', 'Unsupported', 'PathTimeout', 'Infeasible',
    'HarnessError', 'eng', 'is_sym', 'sym_and', 'sym_or', 'sym_not', 'to_z3_bool',
]


class Inconclusive(BaseException):
    """The current path cannot be decided (solver unknown / unsupported operation)."""


class Unsupported(Inconclusive):
    """An operation on a symbolic value that the symbolic layer does not model."""


class PathTimeout(BaseException):
    """The current path ran longer than the per-path wall budget (nontermination suspect)."""


class Infeasible(BaseException):
    """The path condition became unsatisfiable (only via assume())."""


class HarnessError(Exception):
    """The machinery contradicts itself (nondeterministic replay, stub mismatch, ...)."""


_ENGINE = None


def eng():
    if _ENGINE is None:
        raise HarnessError('no active engine')
    return _ENGINE


def active():
    return _ENGINE is not None


class _Entry:
    __slots__ = ('expr', 'taken', 'alt_model', 'aux', 'forced', 'pushed', 'dom_t', 'dom_f')

    def __init__(self, expr, taken, alt_model, aux=None, forced=False, pushed=True):
        self.dom_t = None           # {var id: (var, Mask)} implied by the True side
        self.dom_f = None
        self.expr = expr
        self.taken = taken
        self.alt_model = alt_model  # model for the other side if feasible & unexplored
        self.aux = aux
        self.forced = forced
        self.pushed = pushed        # False: implied decision, no solver frame


_TRUE = z3.BoolVal(True)
_FALSE = z3.BoolVal(False)


class Engine:
    def __init__(self, timeout_ms=10000, path_timeout_s=60.0, max_paths=None, realise_cap=64,
                 wall_budget_s=None):
        self.solver = z3.Solver()
        self.solver.set('timeout', timeout_ms)
        self.timeout_ms = timeout_ms
        self.path_timeout_s = path_timeout_s
        self.max_paths = max_paths
        self.realise_cap = realise_cap
        self.wall_budget_s = wall_budget_s
        self.trail = []
        self.pos = 0
        self.model = None
        self.nfresh = 0
        self.dom = {}               # per-path: var id -> Mask (sound over-approximation)
        self.memo = {}              # per-path scratch for the symbolic layers
        self.base_assumptions = []
        # statistics
        self.paths = 0
        self.decisions = 0          # solver-decided branches (new trail entries)
        self.queries = 0
        self.solver_time = 0.0
        self.unknown = 0
        self.inconclusive = []      # (reason, count)
        self.realisations = 0
        self.budget_exhausted = False

    # ------------------------------------------------------------------ solver access
    def _check(self, *extra):
        t = time.perf_counter()
        r = self.solver.check(*extra)
        self.solver_time += time.perf_counter() - t
        self.queries += 1
        if r == z3.unknown:
            self.unknown += 1
        return r

    def get_model(self):
        if self.model is None:
            r = self._check()
            if r == z3.sat:
                self.model = self.solver.model()
            elif r == z3.unsat:
                raise Infeasible()
            else:
                raise Inconclusive('solver unknown (model)')
        return self.model

    def _eval_bool(self, expr):
        """evaluate expr under the cached model -> True/False/None"""
        if self.model is None:
            return None
        v = self.model.eval(expr, model_completion=True)
        if z3.is_true(v):
            return True
        if z3.is_false(v):
            return False
        return None

    # ------------------------------------------------------------------ fresh symbols
    def fresh_name(self, prefix):
        self.nfresh += 1
        return '%s!%d' % (prefix, self.nfresh)

    def fresh_int(self, prefix='i', lo=None, hi=None):
        v = z3.Int(self.fresh_name(prefix))
        cons = []
        if lo is not None:
            cons.append(v >= lo)
        if hi is not None:
            cons.append(v <= hi)
        if cons:
            self.assume(z3.And(*cons) if len(cons) > 1 else cons[0])
        return v

    def fresh_bool(self, prefix='b'):
        return z3.Bool(self.fresh_name(prefix))

    # ------------------------------------------------------------------ decisions
    def assume(self, expr, dom=None):
        """Add a constraint to the path condition (recorded on the trail so that re-execution
        does not add it twice).  dom optionally gives {var id: (var, Mask)} implied by expr."""
        if isinstance(expr, SymBool):
            expr = expr.e
        if isinstance(expr, bool):
            if not expr:
                raise Infeasible()
            return
        expr = z3.simplify(expr)
        if z3.is_true(expr):
            return
        if z3.is_false(expr):
            raise Infeasible()
        if self.pos < len(self.trail):
            e = self.trail[self.pos]
            if not (e.forced and e.expr.eq(expr)):
                raise HarnessError('nondeterministic replay (assume): %s vs %s' % (e.expr, expr))
            self.pos += 1
            self._narrow(e.dom_t)
            return
        self.solver.push()
        self.solver.add(expr)
        ent = _Entry(expr, True, None, forced=True)
        if dom is not None:
            ent.dom_t = dom
        else:
            ent.dom_t, _ = _auto_dom(expr)
        self.trail.append(ent)
        self.pos += 1
        self._narrow(ent.dom_t)
        if self._eval_bool(expr) is not True:
            self.model = None
            r = self._check()
            if r == z3.unsat:
                raise Infeasible()
            if r != z3.sat:
                raise Inconclusive('solver unknown (assume)')
            self.model = self.solver.model()

    def _narrow(self, d):
        if d:
            dom = self.dom
            for vid, (v, m) in d.items():
                cur = dom.get(vid)
                dom[vid] = (v, m if cur is None else cur[1].inter(m))

    def domain(self, v):
        """known over-approximation of the values of variable v on this path (Mask or None)"""
        hit = self.dom.get(v.get_id())
        return hit[1] if hit is not None else None

    def _done(self, ent, val):
        self._narrow(ent.dom_t if val else ent.dom_f)
        return val

    def branch(self, expr, dom_true=None):
        """Decide a symbolic condition; returns a Python bool.  dom_true optionally gives
        per-variable supersets implied by the True side ({var id: (var, Mask)})."""
        if isinstance(expr, bool):
            return expr
        expr = z3.simplify(expr)
        if z3.is_true(expr):
            return True
        if z3.is_false(expr):
            return False
        if self.pos < len(self.trail):
            e = self.trail[self.pos]
            if e.forced or not e.expr.eq(expr):
                raise HarnessError('nondeterministic replay (branch): %s vs %s' % (e.expr, expr))
            self.pos += 1
            return self._done(e, e.taken)
        if dom_true is None:
            dom_true, dom_false = _auto_dom(expr)
        else:
            dom_false = None
        # new decision
        val = self._eval_bool(expr)
        if val is None:
            # no usable model: check the positive side
            r = self._check(expr)
            if r == z3.sat:
                self.model = self.solver.model()
                val = True
            elif r == z3.unsat:
                # positive side infeasible: negative must hold (path condition is sat)
                self.model = None
                ent = _Entry(expr, False, None, pushed=False)
                ent.dom_t, ent.dom_f = dom_true, dom_false
                self.trail.append(ent)
                self.pos += 1
                return self._done(ent, False)
            else:
                raise Inconclusive('solver unknown (branch)')
        other = z3.Not(expr) if val else expr
        r = self._check(other)
        if r == z3.sat:
            alt = self.solver.model()
        elif r == z3.unsat:
            # implied by the path condition: recorded (for replay) without a solver frame
            ent = _Entry(expr, val, None, pushed=False)
            ent.dom_t, ent.dom_f = dom_true, dom_false
            self.trail.append(ent)
            self.pos += 1
            return self._done(ent, val)
        else:
            raise Inconclusive('solver unknown (branch alt)')
        self.solver.push()
        self.solver.add(expr if val else z3.Not(expr))
        ent = _Entry(expr, val, alt)
        ent.dom_t, ent.dom_f = dom_true, dom_false
        self.trail.append(ent)
        self.pos += 1
        self.decisions += 1
        return self._done(ent, val)

    def realise_int(self, expr):
        """Concretise an integer term by forking over its feasible values (capped)."""
        if isinstance(expr, int):
            return expr
        expr = z3.simplify(expr)
        if z3.is_int_value(expr):
            return expr.as_long()
        self.realisations += 1
        n = 0
        while True:
            if self.pos < len(self.trail):
                e = self.trail[self.pos]
                if e.aux is None or e.forced:
                    raise HarnessError('nondeterministic replay (realise)')
                v = e.aux
                if self.branch(expr == v):
                    return v
            else:
                v = self.get_model().eval(expr, model_completion=True).as_long()
                before = len(self.trail)
                took = self.branch(expr == v)
                if len(self.trail) > before:
                    self.trail[before].aux = v
                if took:
                    return v
            n += 1
            if n > self.realise_cap:
                raise Unsupported('realisation cap exceeded (%d values) for %s'
                                  % (self.realise_cap, expr))

    # ------------------------------------------------------------------ exploration
    def _backtrack(self):
        while self.trail:
            e = self.trail[-1]
            if e.pushed:
                self.solver.pop()
            if e.alt_model is not None:
                e.taken = not e.taken
                self.model = e.alt_model
                e.alt_model = None
                self.solver.push()
                self.solver.add(e.expr if e.taken else z3.Not(e.expr))
                return True
            self.trail.pop()
        return False

    def explore(self, fn, on_path=None):
        """Run fn() once per feasible path.  fn returns None/True (ok), False, a z3 Bool /
        SymBool post-condition, or a (post, info) tuple.  on_path(kind, payload) is called with
        kind in {'ok', 'cex', 'inconclusive', 'timeout', 'error'}.

        A z3 post-condition is checked with the solver: a model of path ∧ ¬post is a
        counterexample (payload = (model, info))."""
        global _ENGINE
        if _ENGINE is not None:
            raise HarnessError('nested engines')
        _ENGINE = self
        t0 = time.time()
        try:
            for a in self.base_assumptions:
                self.solver.add(a)
            r = self._check()
            if r != z3.sat:
                raise HarnessError('base assumptions not satisfiable: %s' % r)
            self.model = self.solver.model()
            while True:
                self.pos = 0
                self.nfresh = 0
                self.dom = {}
                self.memo = {}
                self.paths += 1
                kind, payload = self._run_one(fn)
                if on_path is not None:
                    on_path(kind, payload)
                if self.max_paths and self.paths >= self.max_paths:
                    self.budget_exhausted = bool(self.trail) and any(
                        e.alt_model is not None for e in self.trail)
                    break
                if self.wall_budget_s and time.time() - t0 > self.wall_budget_s:
                    self.budget_exhausted = any(e.alt_model is not None for e in self.trail)
                    break
                if not self._backtrack():
                    break
        finally:
            _ENGINE = None
            # release solver frames
            try:
                while self.trail:
                    if self.trail.pop().pushed:
                        self.solver.pop()
            except Exception:
                pass

    def _run_one(self, fn):
        def on_alarm(signum, frame):
            raise PathTimeout()
        use_alarm = self.path_timeout_s is not None
        if use_alarm:
            old = signal.signal(signal.SIGALRM, on_alarm)
            signal.setitimer(signal.ITIMER_REAL, self.path_timeout_s)
        try:
            try:
                res = fn()
            finally:
                if use_alarm:
                    signal.setitimer(signal.ITIMER_REAL, 0)
            info = None
            if isinstance(res, tuple) and len(res) == 2:
                res, info = res
            if isinstance(res, SymBool):
                res = res.e
            if res is None or res is True:
                return 'ok', info
            if res is False:
                return 'cex', (self.get_model(), info)
            post = z3.simplify(res)
            if z3.is_true(post):
                return 'ok', info
            r = self._check(z3.Not(post))
            if r == z3.unsat:
                return 'ok', info
            if r == z3.sat:
                return 'cex', (self.solver.model(), info)
            self._note_inconclusive('solver unknown (post-condition)')
            return 'inconclusive', 'solver unknown (post-condition)'
        except Infeasible:
            self.paths -= 1
            return 'infeasible', None
        except Inconclusive as e:
            import traceback
            where = ''
            for fr in reversed(traceback.extract_tb(e.__traceback__)):
                if '/sx/' not in fr.filename and '/z3/' not in fr.filename:
                    where = ' @%s:%d' % ('/'.join(fr.filename.split('/')[-2:]), fr.lineno)
                    break
            self._note_inconclusive(str(e)[:120] + where)
            return 'inconclusive', str(e) + where
        except PathTimeout:
            m = None
            try:
                m = self.get_model()
            except BaseException:
                pass
            return 'timeout', (m, None)
        finally:
            if use_alarm:
                signal.setitimer(signal.ITIMER_REAL, 0)
                signal.signal(signal.SIGALRM, old)

    def _note_inconclusive(self, reason):
        reason = reason[:200]
        for it in self.inconclusive:
            if it[0] == reason:
                it[1] += 1
                return
        self.inconclusive.append([reason, 1])

    def stats(self):
        return {
            'paths': self.paths, 'decisions': self.decisions, 'queries': self.queries,
            'solver_time_s': round(self.solver_time, 3), 'unknown_queries': self.unknown,
            'inconclusive_paths': [list(x) for x in self.inconclusive],
            'realisations': self.realisations, 'budget_exhausted': self.budget_exhausted,
        }


# ---------------------------------------------------------------------- domain extraction

def _mask_of(expr, depth=0):
    """interpret a z3 Bool over ONE integer variable as (var, Mask) or None"""
    from .mask import Mask, MAXCP
    if depth > 6:
        return None
    k = expr.decl().kind()
    ch = expr.children()
    if k in (z3.Z3_OP_EQ, z3.Z3_OP_LE, z3.Z3_OP_GE, z3.Z3_OP_LT, z3.Z3_OP_GT) and len(ch) == 2:
        a, b = ch
        if z3.is_int_value(a) and not z3.is_int_value(b):
            a, b = b, a
            k = {z3.Z3_OP_LE: z3.Z3_OP_GE, z3.Z3_OP_GE: z3.Z3_OP_LE, z3.Z3_OP_LT: z3.Z3_OP_GT,
                 z3.Z3_OP_GT: z3.Z3_OP_LT}.get(k, k)
        if not (z3.is_int_value(b) and z3.is_const(a) and a.decl().kind() == z3.Z3_OP_UNINTERPRETED
                and z3.is_int(a)):
            return None
        n = b.as_long()
        if k == z3.Z3_OP_EQ:
            m = Mask.rng(n, n)
        elif k == z3.Z3_OP_LE:
            m = Mask.rng(0, n)
        elif k == z3.Z3_OP_GE:
            m = Mask.rng(max(n, 0), MAXCP)
        elif k == z3.Z3_OP_LT:
            m = Mask.rng(0, n - 1)
        else:
            m = Mask.rng(max(n + 1, 0), MAXCP)
        return a, m
    if k == z3.Z3_OP_NOT:
        r = _mask_of(ch[0], depth + 1)
        if r is None:
            return None
        return r[0], r[1].neg()
    if k in (z3.Z3_OP_AND, z3.Z3_OP_OR) and len(ch) <= 64:
        var = None
        acc = None
        for c in ch:
            r = _mask_of(c, depth + 1)
            if r is None:
                return None
            if var is None:
                var, acc = r
            elif not var.eq(r[0]):
                return None
            else:
                acc = acc.inter(r[1]) if k == z3.Z3_OP_AND else acc.union(r[1])
        return var, acc
    return None


_AUTODOM = {}


def _auto_dom(expr):
    eid = expr.get_id()
    hit = _AUTODOM.get(eid)
    if hit is not None:
        return hit[1]
    r = _auto_dom0(expr)
    if len(_AUTODOM) > 200000:
        _AUTODOM.clear()
    _AUTODOM[eid] = (expr, r)
    return r


def _auto_dom0(expr):
    """(dom_true, dom_false) for single-variable range conditions (variables that are code
    points / bytes: domain 0..MAXCP is implied by their declaration)"""
    try:
        r = _mask_of(expr)
    except Exception:
        r = None
    if r is None:
        if expr.decl().kind() == z3.Z3_OP_AND:
            # conjunction over several variables: narrow each conjunct that is single-variable
            d = {}
            for c in expr.children():
                rr = _mask_of(c)
                if rr is not None:
                    vid = rr[0].get_id()
                    if vid in d:
                        d[vid] = (rr[0], d[vid][1].inter(rr[1]))
                    else:
                        d[vid] = rr
            return (d or None), None
        return None, None
    v, m = r
    return {v.get_id(): (v, m)}, {v.get_id(): (v, m.neg())}


# ---------------------------------------------------------------------- symbolic scalars

def is_sym(x):
    return isinstance(x, (SymBool, SymInt)) or getattr(x, '_sx_symbolic', False)


def to_z3_bool(x):
    if isinstance(x, SymBool):
        return x.e
    if isinstance(x, bool):
        return _TRUE if x else _FALSE
    if z3.is_expr(x):
        return x
    return _TRUE if x else _FALSE


def _mkbool(e):
    """wrap a z3 Bool; collapse to Python bool when constant"""
    if isinstance(e, bool):
        return e
    e = z3.simplify(e)
    if z3.is_true(e):
        return True
    if z3.is_false(e):
        return False
    return SymBool(e)


def sym_and(*xs):
    es = []
    for x in xs:
        if isinstance(x, SymBool):
            es.append(x.e)
        elif z3.is_expr(x):
            es.append(x)
        elif not x:
            return False
    if not es:
        return True
    return _mkbool(z3.And(*es) if len(es) > 1 else es[0])


def sym_or(*xs):
    es = []
    for x in xs:
        if isinstance(x, SymBool):
            es.append(x.e)
        elif z3.is_expr(x):
            es.append(x)
        elif x:
            return True
    if not es:
        return False
    return _mkbool(z3.Or(*es) if len(es) > 1 else es[0])


def sym_not(x):
    if isinstance(x, SymBool):
        return _mkbool(z3.Not(x.e))
    if z3.is_expr(x):
        return _mkbool(z3.Not(x))
    return not x


class SymBool:
    __slots__ = ('e',)
    _sx_symbolic = True

    def __init__(self, e):
        self.e = e

    def __bool__(self):
        return eng().branch(self.e)

    def __and__(self, o):
        return sym_and(self, o)
    __rand__ = __and__

    def __or__(self, o):
        return sym_or(self, o)
    __ror__ = __or__

    def __invert__(self):
        return sym_not(self)

    def __eq__(self, o):
        if isinstance(o, (SymBool, bool)):
            return _mkbool(self.e == to_z3_bool(o))
        if isinstance(o, (int, SymInt)):
            return SymInt(z3.If(self.e, 1, 0)) == o
        return False

    def __ne__(self, o):
        return sym_not(self.__eq__(o))

    def __hash__(self):
        return hash(bool(self))

    def __int__(self):
        return int(bool(self))

    def __index__(self):
        return int(bool(self))

    def __add__(self, o):
        return SymInt(z3.If(self.e, 1, 0)) + o
    __radd__ = __add__

    def __mul__(self, o):
        # used as  n * bool  / str * bool: realise
        return int(bool(self)) * o
    __rmul__ = __mul__

    def __repr__(self):
        return 'SymBool(%s)' % self.e


def _int_e(x):
    if isinstance(x, SymInt):
        return x.e
    if isinstance(x, SymBool):
        return z3.If(x.e, 1, 0)
    if isinstance(x, bool):
        return int(x)
    if isinstance(x, int):
        return x
    return None


def _mkint(e):
    if isinstance(e, int):
        return e
    e = z3.simplify(e)
    if z3.is_int_value(e):
        return e.as_long()
    return SymInt(e)


class SymInt:
    __slots__ = ('e',)
    _sx_symbolic = True

    def __init__(self, e):
        self.e = e

    # comparisons
    def _cmp(self, o, op):
        oe = _int_e(o)
        if oe is None:
            return NotImplemented
        return _mkbool(op(self.e, oe))

    def __eq__(self, o):
        r = self._cmp(o, lambda a, b: a == b)
        return False if r is NotImplemented else r

    def __ne__(self, o):
        r = self._cmp(o, lambda a, b: a != b)
        return True if r is NotImplemented else r

    def __lt__(self, o):
        return self._cmp(o, lambda a, b: a < b)

    def __le__(self, o):
        return self._cmp(o, lambda a, b: a <= b)

    def __gt__(self, o):
        return self._cmp(o, lambda a, b: a > b)

    def __ge__(self, o):
        return self._cmp(o, lambda a, b: a >= b)

    # arithmetic
    def _bin(self, o, op, rev=False):
        oe = _int_e(o)
        if oe is None:
            return NotImplemented
        return _mkint(op(oe, self.e) if rev else op(self.e, oe))

    def __add__(self, o):
        return self._bin(o, lambda a, b: a + b)

    def __radd__(self, o):
        return self._bin(o, lambda a, b: a + b, True)

    def __sub__(self, o):
        return self._bin(o, lambda a, b: a - b)

    def __rsub__(self, o):
        return self._bin(o, lambda a, b: a - b, True)

    def __mul__(self, o):
        if isinstance(o, (str, list, tuple)) or getattr(o, '_sx_symbolic', False) and not isinstance(o, (SymInt, SymBool)):
            return o * int(self)
        return self._bin(o, lambda a, b: a * b)

    def __rmul__(self, o):
        if isinstance(o, (str, list, tuple)) or getattr(o, '_sx_symbolic', False) and not isinstance(o, (SymInt, SymBool)):
            return o * int(self)
        return self._bin(o, lambda a, b: a * b, True)

    @staticmethod
    def _floordiv(a, b):
        # Python floor division for ints; z3 div is Euclidean (rounds so that remainder >= 0)
        if isinstance(b, int):
            if b > 0:
                return a / b if z3.is_expr(a) else z3.IntVal(a) / b
            if b < 0:
                return (-a) / (-b) if z3.is_expr(a) else z3.IntVal(-a) / (-b)
            raise ZeroDivisionError('integer division or modulo by zero')
        a = a if z3.is_expr(a) else z3.IntVal(a)
        return z3.If(b > 0, a / b, (-a) / (-b))

    def __floordiv__(self, o):
        oe = _int_e(o)
        if oe is None:
            return NotImplemented
        if not isinstance(oe, int) and eng().branch(oe == 0):
            raise ZeroDivisionError('integer division or modulo by zero')
        return _mkint(self._floordiv(self.e, oe))

    def __rfloordiv__(self, o):
        oe = _int_e(o)
        if oe is None:
            return NotImplemented
        if eng().branch(self.e == 0):
            raise ZeroDivisionError('integer division or modulo by zero')
        return _mkint(self._floordiv(oe, self.e))

    def __mod__(self, o):
        oe = _int_e(o)
        if oe is None:
            return NotImplemented
        q = self.__floordiv__(o)
        return _mkint(self.e - _int_e(q) * oe)

    def __rmod__(self, o):
        oe = _int_e(o)
        if oe is None:
            return NotImplemented
        q = self.__rfloordiv__(o)
        return _mkint(oe - _int_e(q) * self.e)

    def __neg__(self):
        return _mkint(-self.e)

    def __pos__(self):
        return self

    def __abs__(self):
        return _mkint(z3.If(self.e >= 0, self.e, -self.e))

    def __truediv__(self, o):
        from .symnum import symint_truediv
        return symint_truediv(self, o)

    def __bool__(self):
        return eng().branch(self.e != 0)

    def __index__(self):
        return eng().realise_int(self.e)

    __int__ = __index__

    def __hash__(self):
        return hash(eng().realise_int(self.e))

    def __repr__(self):
        return 'SymInt(%s)' % self.e


def fresh_int(prefix='i', lo=None, hi=None):
    return SymInt(eng().fresh_int(prefix, lo, hi))


def fresh_bool(prefix='b'):
    return SymBool(eng().fresh_bool(prefix))
