"""Symbolic regular expressions with `re`'s priority (backtracking) semantics (DESIGN 2.3).

The *live* compiled pattern object is wrapped; when it is applied to a SymStr the pattern's own
re._parser tree is interpreted over the symbolic characters.  Candidates are enumerated in sre's
priority order; a candidate is (end, per-position character sets, group spans).  The engine forks
once per distinct result signature, not once per character test.
"""

import re as _re
import re._parser as _parser
import re._constants as _c
import re._casefix as _casefix
import _sre

import z3

from .core import Unsupported, eng, HarnessError
from .mask import Mask, FULL, EMPTY, MAXCP
from .symstr import SymStr, SymBytes, _pred_mask

MAXREPEAT = _c.MAXREPEAT
CAND_CAP = 20000

# regexes touched by this process (pattern text, flags) -> set of concrete probe strings
TOUCHED = {}

# ---------------------------------------------------------------------- character sets

_cat_cache = {}


def _category_mask(cat, ascii_only):
    key = (cat, ascii_only)
    if key in _cat_cache:
        return _cat_cache[key]
    neg = False
    name = str(cat)
    base = None
    if cat in (_c.CATEGORY_DIGIT, _c.CATEGORY_NOT_DIGIT):
        base = Mask.rng(48, 57) if ascii_only else _pred_mask('isdecimal')
        neg = cat == _c.CATEGORY_NOT_DIGIT
    elif cat in (_c.CATEGORY_SPACE, _c.CATEGORY_NOT_SPACE):
        base = Mask.of(' \t\n\r\f\v') if ascii_only else _pred_mask('isspace')
        neg = cat == _c.CATEGORY_NOT_SPACE
    elif cat in (_c.CATEGORY_WORD, _c.CATEGORY_NOT_WORD):
        if ascii_only:
            base = Mask([(48, 57), (65, 90), (97, 122), (95, 95)])
        else:
            base = _pred_mask('isalnum').union(Mask.of('_'))
        neg = cat == _c.CATEGORY_NOT_WORD
    else:
        raise Unsupported('regex category %s' % name)
    m = base.neg() if neg else base
    _cat_cache[key] = m
    return m


_CASED = None
_INV = None


def _case_tables():
    global _CASED, _INV
    if _CASED is None:
        cased = []
        inv = {}
        tl = _sre.unicode_tolower
        for cp in range(0x110000):
            l = tl(cp)
            if l != cp:
                cased.append((cp, l))
                inv.setdefault(l, []).append(cp)
        _CASED = cased
        _INV = inv
    return _CASED, _INV


_icase_cache = {}


def _icase(lits, cats):
    """sre IGNORECASE|UNICODE semantics for a set: c matches iff tolower(c) in S' where
    S' = {tolower(i) for i in lits} + fixes + cats."""
    key = (lits, cats)
    if key in _icase_cache:
        return _icase_cache[key]
    cased, inv = _case_tables()
    casedmask = Mask((c, c) for c, _ in cased)
    low = [(lo, hi) for lo, hi in lits.minus(casedmask).iv]
    for c, l in cased:
        if c in lits:
            low.append((l, l))
    sp = Mask(low)
    extra = []
    for k, others in _casefix._EXTRA_CASES.items():
        if k in sp:
            extra.extend((o, o) for o in others)
    sp = sp.union(Mask(extra)).union(cats)
    res = list(sp.minus(casedmask).iv)
    for c, l in cased:
        if l in sp:
            res.append((c, c))
    m = Mask(res)
    _icase_cache[key] = m
    return m


class _Flags:
    __slots__ = ('icase', 'ascii', 'multiline', 'dotall', 'bytes')

    def __init__(self, flags, is_bytes):
        self.icase = bool(flags & _re.IGNORECASE)
        self.ascii = bool(flags & _re.ASCII) or is_bytes
        self.multiline = bool(flags & _re.MULTILINE)
        self.dotall = bool(flags & _re.DOTALL)
        self.bytes = is_bytes

    def with_(self, add, dele):
        f = _Flags(0, self.bytes)
        f.icase, f.ascii, f.multiline, f.dotall = self.icase, self.ascii, self.multiline, self.dotall
        for bit, name in ((_re.IGNORECASE, 'icase'), (_re.ASCII, 'ascii'),
                          (_re.MULTILINE, 'multiline'), (_re.DOTALL, 'dotall')):
            if add & bit:
                setattr(f, name, True)
            if dele & bit:
                setattr(f, name, False)
        return f


def _lit_mask(ch, fl):
    m = Mask.rng(ch, ch)
    if fl.icase:
        if fl.ascii:
            if 65 <= ch <= 90:
                return Mask([(ch, ch), (ch + 32, ch + 32)])
            if 97 <= ch <= 122:
                return Mask([(ch, ch), (ch - 32, ch - 32)])
            return m
        return _icase(m, EMPTY)
    return m


def _set_mask(items, fl):
    negate = False
    lits = []
    cats = EMPTY
    for op, av in items:
        if op is _c.NEGATE:
            negate = True
        elif op is _c.LITERAL:
            lits.append((av, av))
        elif op is _c.RANGE:
            lits.append(av)
        elif op is _c.CATEGORY:
            cats = cats.union(_category_mask(av, fl.ascii))
        else:
            raise Unsupported('regex set item %s' % op)
    lm = Mask(lits)
    if fl.icase:
        if fl.ascii:
            extra = []
            for lo, hi in lm.iv:
                a, b = max(lo, 65), min(hi, 90)
                if a <= b:
                    extra.append((a + 32, b + 32))
                a, b = max(lo, 97), min(hi, 122)
                if a <= b:
                    extra.append((a - 32, b - 32))
            m = lm.union(Mask(extra)).union(cats)
        else:
            m = _icase(lm, cats)
    else:
        m = lm.union(cats)
    top = 255 if fl.bytes else MAXCP
    if negate:
        m = m.neg(top)
    return m


# ---------------------------------------------------------------------- compiled form

class _N:
    """compiled node"""
    __slots__ = ('kind', 'a', 'b', 'c')

    def __init__(self, kind, a=None, b=None, c=None):
        self.kind, self.a, self.b, self.c = kind, a, b, c


def _compile_seq(sub, fl):
    out = []
    for op, av in sub:
        if op is _c.LITERAL:
            out.append(_N('set', _lit_mask(av, fl)))
        elif op is _c.NOT_LITERAL:
            top = 255 if fl.bytes else MAXCP
            out.append(_N('set', _lit_mask(av, fl).neg(top)))
        elif op is _c.ANY:
            top = 255 if fl.bytes else MAXCP
            out.append(_N('set', Mask.rng(0, top) if fl.dotall else Mask.of('\n').neg(top)))
        elif op is _c.IN:
            out.append(_N('set', _set_mask(av, fl)))
        elif op is _c.BRANCH:
            alts = [_compile_seq(a, fl) for a in av[1]]
            # merge adjacent single-set alternatives (sound for first-match semantics)
            merged = []
            for a in alts:
                if (len(a) == 1 and a[0].kind == 'set' and merged and len(merged[-1]) == 1
                        and merged[-1][0].kind == 'set'):
                    merged[-1] = [_N('set', merged[-1][0].a.union(a[0].a))]
                else:
                    merged.append(a)
            if len(merged) == 1:
                out.extend(merged[0])
            else:
                out.append(_N('branch', merged))
        elif op is _c.SUBPATTERN:
            group, add, dele, p = av
            body = _compile_seq(p, fl.with_(add, dele) if (add or dele) else fl)
            if group is None:
                out.extend(body)
            else:
                out.append(_N('group', group, body))
        elif op in (_c.MAX_REPEAT, _c.MIN_REPEAT):
            lo, hi, p = av
            out.append(_N('max' if op is _c.MAX_REPEAT else 'min', lo, hi, _compile_seq(p, fl)))
        elif op is _c.AT:
            out.append(_N('at', av, fl))
        else:
            raise Unsupported('regex node %s' % op)
    return out


_compiled = {}


def _get_compiled(pattern, flags):
    key = (pattern, flags)
    if key not in _compiled:
        is_bytes = isinstance(pattern, bytes)
        tree = _parser.parse(pattern, flags)
        fl = _Flags(tree.state.flags, is_bytes)
        _compiled[key] = (_compile_seq(tree, fl), tree.state.groups - 1,
                          dict(tree.state.groupdict))
    return _compiled[key]


# ---------------------------------------------------------------------- matcher

class _St:
    """match state: per-position masks for symbolic positions, group spans"""
    __slots__ = ('cons', 'groups')

    def __init__(self, cons, groups):
        self.cons = cons
        self.groups = groups


def _m_seq(items, i, s, pos, end, st, k):
    if i == len(items):
        yield from k(pos, st)
        return
    node = items[i]
    kind = node.kind
    if kind == 'set':
        # fast path: run of sets
        if pos >= end:
            return
        c = s[pos]
        if isinstance(c, int):
            if c not in node.a:
                return
            yield from _m_seq(items, i + 1, s, pos + 1, end, st, k)
        else:
            cur = st.cons.get(pos)
            nm = node.a if cur is None else cur.inter(node.a)
            if not nm:
                return
            d = _DOM.get(c.get_id())
            if d is not None:
                if not _meets(d, nm):
                    return
                if cur is None and _within(d, nm):
                    # implied by what is already known about this character: no new constraint
                    yield from _m_seq(items, i + 1, s, pos + 1, end, st, k)
                    return
            if cur is not None and nm == cur:
                yield from _m_seq(items, i + 1, s, pos + 1, end, st, k)
            else:
                nc = dict(st.cons)
                nc[pos] = nm
                yield from _m_seq(items, i + 1, s, pos + 1, end, _St(nc, st.groups), k)
        return
    nxt = lambda p, t: _m_seq(items, i + 1, s, p, end, t, k)
    if kind == 'branch':
        for alt in node.a:
            yield from _m_seq(alt, 0, s, pos, end, st, nxt)
    elif kind == 'group':
        gid = node.a

        def after(p, t, gid=gid, start=pos):
            g = dict(t.groups)
            g[gid] = (start, p)
            return nxt(p, _St(t.cons, g))
        yield from _m_seq(node.b, 0, s, pos, end, st, after)
    elif kind == 'max':
        lo, hi, body = node.a, node.b, node.c

        def rep(count, p, t):
            if count < hi:
                def again(p2, t2, count=count, p=p):
                    if p2 == p and count >= lo:
                        return iter(())
                    return rep(count + 1, p2, t2)
                yield from _m_seq(body, 0, s, p, end, t, again)
            if count >= lo:
                yield from nxt(p, t)
        yield from rep(0, pos, st)
    elif kind == 'min':
        lo, hi, body = node.a, node.b, node.c

        def rep(count, p, t):
            if count >= lo:
                yield from nxt(p, t)
            if count < hi:
                def again(p2, t2, count=count, p=p):
                    if p2 == p and count >= lo:
                        return iter(())
                    return rep(count + 1, p2, t2)
                yield from _m_seq(body, 0, s, p, end, t, again)
        yield from rep(0, pos, st)
    elif kind == 'at':
        at, fl = node.a, node.b
        if at is _c.AT_BEGINNING:
            if pos == 0:
                yield from nxt(pos, st)
            elif fl.multiline:
                yield from _require(s, pos - 1, Mask.of('\n'), st, lambda t: nxt(pos, t))
        elif at is _c.AT_BEGINNING_STRING:
            if pos == 0:
                yield from nxt(pos, st)
        elif at is _c.AT_END:
            n = len(s)
            if pos == n:
                yield from nxt(pos, st)
            elif pos == n - 1 or fl.multiline:
                yield from _require(s, pos, Mask.of('\n'), st, lambda t: nxt(pos, t))
        elif at is _c.AT_END_STRING:
            if pos == len(s):
                yield from nxt(pos, st)
        else:
            raise Unsupported('regex anchor %s' % at)
    else:
        raise Unsupported('regex node kind %s' % kind)


def _require(s, pos, mask, st, k):
    c = s[pos]
    if isinstance(c, int):
        if c in mask:
            yield from k(st)
        return
    cur = st.cons.get(pos)
    nm = mask if cur is None else cur.inter(mask)
    if not nm:
        return
    d = _DOM.get(c.get_id())
    if d is not None:
        if not _meets(d, nm):
            return
        if cur is None and _within(d, nm):
            yield from k(st)
            return
    nc = dict(st.cons)
    nc[pos] = nm
    yield from k(_St(nc, st.groups))


_MEET = {}


def _meets(a, b):
    """a ∩ b non-empty (memoised)"""
    key = (a, b)
    r = _MEET.get(key)
    if r is None:
        r = bool(a.inter(b))
        if len(_MEET) > 100000:
            _MEET.clear()
        _MEET[key] = r
    return r


_WITHIN = {}


def _within(a, b):
    """a ⊆ b (memoised)"""
    key = (a, b)
    r = _WITHIN.get(key)
    if r is None:
        r = a.issubset(b)
        if len(_WITHIN) > 100000:
            _WITHIN.clear()
        _WITHIN[key] = r
    return r


def _subsumed(cons, earlier):
    """cons ⊆ earlier  (every string satisfying cons also satisfies earlier)"""
    for p, m in earlier.items():
        cm = cons.get(p)
        if cm is None:
            return False
        if cm is not m and not _within(cm, m):
            return False
    return True


_DOM = {}


def _candidates(items, s, pos, end, full, dom=None):
    """dom: {var id: Mask} known supersets of the symbolic characters' values on this path"""
    global _DOM
    _DOM = dom or {}
    if full:
        def final(p, t):
            if p == end:
                yield (p, t)
    else:
        def final(p, t):
            yield (p, t)
    cands = []
    n = 0
    for p, t in _m_seq(items, 0, s, pos, end, _St({}, {}), final):
        n += 1
        if n > CAND_CAP:
            raise Unsupported('regex candidate cap exceeded')
        cons = t.cons
        if any(_subsumed(cons, c[1]) for c in cands):
            continue
        cands.append(((p, tuple(sorted(t.groups.items()))), cons))
        if not cons:
            break
    return cands


def _decision_list(cands, s):
    """[(signature, formula)] in priority order: formula = 'the first successful candidate has
    this signature'"""
    order = []
    forms = {}
    prefix = None      # conjunction of Not(cond) of all earlier candidates (nested, linear size)
    for sig, cons in cands:
        if cons:
            items = sorted(cons.items())
            cond = z3.And(*[m.formula(s[p]) for p, m in items]) if len(items) > 1 \
                else items[0][1].formula(s[items[0][0]])
            first = cond if prefix is None else z3.And(prefix, cond)
            ncond = z3.Not(cond)
            prefix = ncond if prefix is None else z3.And(prefix, ncond)
        else:
            first = prefix if prefix is not None else z3.BoolVal(True)
        if sig not in forms:
            forms[sig] = []
            order.append(sig)
        forms[sig].append(first)
    out = []
    for sig in order:
        # per-variable supersets implied by "this signature is the result"
        hint = None
        for sg, cons in cands:
            if sg != sig:
                continue
            cur = {}
            for p, m in cons.items():
                cur[s[p].get_id()] = (s[p], m)
            if hint is None:
                hint = cur
            else:
                hint = {vid: (v, m.union(cur[vid][1])) for vid, (v, m) in hint.items()
                        if vid in cur}
        out.append((sig, z3.simplify(z3.Or(*forms[sig]) if len(forms[sig]) > 1 else forms[sig][0]),
                    hint or None))
    return out


_DECISIONS = {}
_KEEP = []


def _decide(pat, items, s, pos, end, full):
    """fork once per distinct signature, in priority order; returns signature or None"""
    e = eng()
    edom = e.dom
    dom = {}
    kk = []
    for c in s:
        if isinstance(c, int):
            kk.append(c)
        else:
            cid = c.get_id()
            d = edom.get(cid)
            if d is not None:
                dom[cid] = d[1]
                kk.append((cid, d[1]))
            else:
                kk.append(-1 - cid)
    key = (pat, pos, end, full, tuple(kk))
    dl = _DECISIONS.get(key)
    if dl is None:
        cands = _candidates(items, s, pos, end, full, dom)
        dl = _decision_list(cands, s) if cands else []
        if len(_DECISIONS) > 300000:
            _DECISIONS.clear()
            del _KEEP[:]
        _DECISIONS[key] = dl
        _KEEP.append(list(s))   # keep the terms alive so that ids stay unique
    for sig, f, hint in dl:
        if e.branch(f, hint):
            return sig
    return None


class SxMatch:
    def __init__(self, pat, string, pos, endpos, start, sig):
        self.re = pat
        self.string = string
        self.pos = pos
        self.endpos = endpos
        self._start = start
        self._end = sig[0]
        self._groups = dict(sig[1])
        self.lastindex = max(self._groups) if self._groups else None

    def __bool__(self):
        return True

    def _gid(self, g):
        if isinstance(g, str):
            return self.re.groupindex[g]
        return g

    def span(self, g=0):
        g = self._gid(g)
        if g == 0:
            return (self._start, self._end)
        if g > self.re.groups:
            raise IndexError('no such group')
        return self._groups.get(g, (-1, -1))

    def start(self, g=0):
        return self.span(g)[0]

    def end(self, g=0):
        return self.span(g)[1]

    def _one(self, g, default=None):
        a, b = self.span(g)
        if a < 0:
            return default
        return self.string[a:b]

    def group(self, *gs):
        if not gs:
            return self._one(0)
        if len(gs) == 1:
            return self._one(gs[0])
        return tuple(self._one(g) for g in gs)

    __getitem__ = group

    def groups(self, default=None):
        return tuple(self._one(g, default) for g in range(1, self.re.groups + 1))

    def groupdict(self, default=None):
        return {k: self._one(v, default) for k, v in self.re.groupindex.items()}


def _is_sym(x):
    return isinstance(x, SymStr) and not x.is_concrete()


def _conc(x):
    if isinstance(x, SymStr):
        return x.concrete()
    return x


class SxPattern:
    """dual-mode wrapper around a live compiled pattern"""

    def __init__(self, real):
        self._real = real
        self.pattern = real.pattern
        self.flags = real.flags
        self.groups = real.groups
        self.groupindex = dict(real.groupindex)

    def __repr__(self):
        return 'Sx' + repr(self._real)

    def __getattr__(self, name):
        return getattr(self._real, name)

    def _items(self):
        return _get_compiled(self.pattern, self.flags)[0]

    def _note(self, s):
        TOUCHED.setdefault((self.pattern, self.flags), None)

    def _match_at(self, s, i, endpos, full=False):
        sig = _decide(self, self._items(), s.ch, i, endpos, full)
        if sig is None:
            return None
        return SxMatch(self, s, i, endpos, i, sig)

    def _range(self, s, pos, endpos):
        n = len(s)
        if endpos is None or endpos > n:
            endpos = n
        if pos < 0:
            pos = 0
        if endpos < 0:
            endpos = 0
        return pos, endpos

    def match(self, string, pos=0, endpos=None):
        if not _is_sym(string):
            return self._real.match(_conc(string), pos, *(() if endpos is None else (endpos,)))
        self._note(string)
        pos, endpos = self._range(string, int(pos), endpos)
        if pos > endpos:
            return None
        return self._match_at(string, pos, endpos)

    def fullmatch(self, string, pos=0, endpos=None):
        if not _is_sym(string):
            return self._real.fullmatch(_conc(string), pos, *(() if endpos is None else (endpos,)))
        self._note(string)
        pos, endpos = self._range(string, int(pos), endpos)
        if pos > endpos:
            return None
        return self._match_at(string, pos, endpos, full=True)

    def search(self, string, pos=0, endpos=None):
        if not _is_sym(string):
            return self._real.search(_conc(string), pos, *(() if endpos is None else (endpos,)))
        self._note(string)
        pos, endpos = self._range(string, int(pos), endpos)
        for i in range(pos, endpos + 1):
            m = self._match_at(string, i, endpos)
            if m is not None:
                return m
        return None

    def finditer(self, string, pos=0, endpos=None):
        if not _is_sym(string):
            yield from self._real.finditer(_conc(string), pos, *(() if endpos is None else (endpos,)))
            return
        self._note(string)
        pos, endpos = self._range(string, int(pos), endpos)
        i = pos
        while i <= endpos:
            m = self._match_at(string, i, endpos)
            if m is None:
                i += 1
                continue
            yield m
            if m.end() == m.start():
                i = m.end() + 1   # (sre: empty match then advance)
            else:
                i = m.end()

    def findall(self, string, pos=0, endpos=None):
        if not _is_sym(string):
            return self._real.findall(_conc(string), pos, *(() if endpos is None else (endpos,)))
        out = []
        for m in self.finditer(string, pos, endpos):
            if self.groups == 0:
                out.append(m.group(0))
            elif self.groups == 1:
                out.append(m.group(1) if m.group(1) is not None else '')
            else:
                out.append(tuple(g if g is not None else '' for g in m.groups()))
        return out

    def sub(self, repl, string, count=0):
        return self.subn(repl, string, count)[0]

    def subn(self, repl, string, count=0):
        sym_repl = isinstance(repl, SymStr) and not repl.is_concrete()
        if not _is_sym(string) and not sym_repl:
            rr = _conc(repl)
            if callable(rr):
                # the callback may return symbolic strings: run our own loop over real matches
                string = _conc(string)
                out = []
                last = 0
                n = 0
                anysym = False
                for m in self._real.finditer(string):
                    if count and n >= count:
                        break
                    out.append(string[last:m.start()])
                    r = rr(m)
                    if isinstance(r, SymStr):
                        anysym = True
                    out.append(r)
                    last = m.end()
                    n += 1
                out.append(string[last:])
                if not anysym:
                    return ''.join(out) if isinstance(string, str) else b''.join(out), n
                return _join(out, isinstance(string, bytes)), n
            return self._real.subn(rr, _conc(string), count)
        self._note(string)
        if not callable(repl):
            rc = _conc(repl)
            if isinstance(rc, (str, bytes)) and (('\\' in rc) if isinstance(rc, str) else (b'\\' in rc)):
                raise Unsupported('regex sub template with backslash on symbolic string')
        string = string if isinstance(string, SymStr) else _unlift(string)
        out = []
        last = 0
        n = 0
        i = 0
        L = len(string)
        while i <= L:
            if count and n >= count:
                break
            m = self._match_at(string, i, L)
            if m is None:
                i += 1
                continue
            out.append(string[last:m.start()])
            out.append(repl(m) if callable(repl) else repl)
            last = m.end()
            n += 1
            i = m.end() if m.end() > m.start() else i + 1
        out.append(string[last:])
        return _join(out, string._bytes), n

    def split(self, string, maxsplit=0):
        if not _is_sym(string):
            return self._real.split(_conc(string), maxsplit)
        self._note(string)
        out = []
        last = 0
        n = 0
        for m in self.finditer(string):
            if maxsplit and n >= maxsplit:
                break
            if m.end() == m.start() and m.start() in (0,):
                pass
            out.append(string[last:m.start()])
            out.extend(m.groups())
            last = m.end()
            n += 1
        out.append(string[last:])
        return out


def _unlift(x):
    if isinstance(x, str):
        return SymStr([ord(c) for c in x])
    if isinstance(x, (bytes, bytearray)):
        return SymBytes(list(x))
    return x


def _join(parts, is_bytes):
    ch = []
    for p in parts:
        if isinstance(p, SymStr):
            ch.extend(p.ch)
        elif isinstance(p, str):
            ch.extend(ord(c) for c in p)
        elif isinstance(p, (bytes, bytearray)):
            ch.extend(p)
        else:
            raise TypeError('expected str instance, %s found' % type(p).__name__)
    return (SymBytes if is_bytes else SymStr).mk(ch)


# ---------------------------------------------------------------------- module facade

class _ReFacade:
    """stands in for the `re` module inside lifted modules"""

    def __init__(self):
        self._cache = {}

    def __getattr__(self, name):
        return getattr(_re, name)

    def compile(self, pattern, flags=0):
        if isinstance(pattern, SxPattern):
            return pattern
        if isinstance(pattern, _re.Pattern):
            return SxPattern(pattern)
        if isinstance(pattern, SymStr):
            pattern = pattern.realise()
        key = (pattern, int(flags))
        p = self._cache.get(key)
        if p is None:
            p = SxPattern(_re.compile(pattern, flags))
            if len(self._cache) < 5000:
                self._cache[key] = p
        return p

    def match(self, pattern, string, flags=0):
        return self.compile(pattern, flags).match(string)

    def fullmatch(self, pattern, string, flags=0):
        return self.compile(pattern, flags).fullmatch(string)

    def search(self, pattern, string, flags=0):
        return self.compile(pattern, flags).search(string)

    def sub(self, pattern, repl, string, count=0, flags=0):
        return self.compile(pattern, flags).sub(repl, string, count)

    def subn(self, pattern, repl, string, count=0, flags=0):
        return self.compile(pattern, flags).subn(repl, string, count)

    def split(self, pattern, string, maxsplit=0, flags=0):
        return self.compile(pattern, flags).split(string, maxsplit)

    def findall(self, pattern, string, flags=0):
        return self.compile(pattern, flags).findall(string)

    def finditer(self, pattern, string, flags=0):
        return self.compile(pattern, flags).finditer(string)

    def escape(self, pattern):
        if isinstance(pattern, SymStr) and not pattern.is_concrete():
            raise Unsupported('re.escape on symbolic string')
        return _re.escape(_conc(pattern))


re_facade = _ReFacade()
