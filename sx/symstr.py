"""SymStr / SymBytes: strings of concrete length whose elements are ints or z3 Int terms."""

import z3

from .core import (SymBool, SymInt, Unsupported, eng, sym_and, sym_or, sym_not, _mkbool, _mkint,
                   _int_e)
from .mask import Mask, MAXCP, FULL

__all__ = ['SymStr', 'SymBytes', 'fresh_str', 'fresh_bytes', 'lift', 'unlift', 'is_symstr']


# ---------------------------------------------------------------------- unicode tables (lazy)

_tables = {}


def _case_ranges(kind):
    """ranges (lo, hi, step, delta) such that kind(chr(c)) == chr(c + delta) for c in the range,
    and a dict of specials (cp -> multi-char result).  Built from Python's own str methods."""
    key = 'case_' + kind
    if key in _tables:
        return _tables[key]
    single = {}
    special = {}
    for cp in range(0x110000):
        r = getattr(chr(cp), kind)()
        if len(r) != 1:
            special[cp] = r
        elif ord(r) != cp:
            single[cp] = ord(r) - cp
    cps = sorted(single)
    ranges = []
    used = set()
    # step-1 runs, then step-2 runs on what is left
    i = 0
    n = len(cps)
    for step in (1, 2):
        i = 0
        rest = [c for c in cps if c not in used]
        j = 0
        while j < len(rest):
            lo = rest[j]
            d = single[lo]
            k = j
            while k + 1 < len(rest) and rest[k + 1] == rest[k] + step and single[rest[k + 1]] == d:
                k += 1
            if step == 1 and k == j:
                j += 1
                continue  # singletons are retried with step 2
            ranges.append((lo, rest[k], step, d))
            used.update(rest[j:k + 1])
            j = k + 1
    for c in cps:
        if c not in used:
            ranges.append((c, c, 1, single[c]))
    ranges.sort()
    _tables[key] = (ranges, special, single)
    return _tables[key]


def _pred_mask(name):
    """Mask of all code points c with getattr(chr(c), name)() true (isspace, isdigit, ...)"""
    key = 'pred_' + name
    if key not in _tables:
        iv = []
        start = None
        for cp in range(0x110000):
            if getattr(chr(cp), name)():
                if start is None:
                    start = cp
            elif start is not None:
                iv.append((start, cp - 1))
                start = None
        if start is not None:
            iv.append((start, MAXCP))
        _tables[key] = Mask(iv)
    return _tables[key]


def _case_masks(kind):
    """(unchanged, image): code points that the mapping leaves alone / that can be results"""
    key = 'casemask_' + kind
    if key not in _tables:
        ranges, special, single = _case_ranges(kind)
        changed = Mask([(c, c) for c in single] + [(c, c) for c in special])
        unchanged = changed.neg()
        image = unchanged.union(Mask((c + d, c + d) for c, d in single.items()))
        _tables[key] = (unchanged, image)
    return _tables[key]


_FORMULAS = {}


def _case_formula(c, kind, dom=None):
    key = (kind, c.get_id(), dom)
    hit = _FORMULAS.get(key)
    if hit is not None:
        return hit[1]
    f = _case_formula0(c, kind, dom)
    if len(_FORMULAS) > 5000:
        _FORMULAS.clear()
    _FORMULAS[key] = (c, f)
    return f


def _case_formula0(c, kind, dom=None):
    """z3 term for the single-character case mapping of term c (balanced ITE over the table;
    table rows that cannot apply because of the known domain of c are left out)"""
    ranges, _, _ = _case_ranges(kind)
    if dom is not None:
        ranges = [r for r in ranges if _meets_range(dom, r)]
        if not ranges:
            return c

    def cond(r):
        lo, hi, step, d = r
        if lo == hi:
            return c == lo
        if step == 1:
            return z3.And(c >= lo, c <= hi)
        return z3.And(c >= lo, c <= hi, (c - lo) % 2 == 0)

    def build(a, b):
        if a == b:
            return z3.If(cond(ranges[a]), c + ranges[a][3], c)
        if b - a == 1 and False:
            pass
        mid = (a + b + 1) // 2
        return z3.If(c < ranges[mid][0], build(a, mid - 1), build(mid, b))
    return build(0, len(ranges) - 1)


def _meets_range(dom, r):
    lo, hi, step, d = r
    for a, b in dom.iv:
        if a > hi:
            break
        if b >= lo:
            return True
    return False


def _case_char(c, kind):
    """case-map one element (int or z3 term) -> int, z3 term or list (multi-character result).
    Symbolic results are let-bound to a fresh variable (keeps terms small, makes the mapping
    idempotent by construction and lets domain narrowing apply to the result)."""
    if isinstance(c, int):
        r = getattr(chr(c), kind)()
        if len(r) != 1:
            return [ord(x) for x in r]
        return ord(r)
    e = eng()
    memo = e.memo
    cid = c.get_id()
    if cid in memo.setdefault(('caseimg', kind), {}):
        return c                       # already a result of this mapping on this path
    hit = memo.get((kind, cid))
    if hit is not None and hit[0].eq(c):
        return hit[1]
    ranges, special, _ = _case_ranges(kind)
    unchanged, image = _case_masks(kind)
    dom = e.domain(c) if z3.is_const(c) else None
    if dom is not None and dom.issubset(unchanged):
        return c
    if special and e.branch(Mask.of(special).formula(c)):
        return [ord(x) for x in special[e.realise_int(c)]]
    l = e.fresh_int('lc', 0, MAXCP)
    e.assume(l == _case_formula(c, kind, dom))
    if dom is not None and dom.size() <= 256:
        img = Mask.of(getattr(chr(v), kind)() for v in dom.values() if v not in special)
    else:
        img = image
    e._narrow({l.get_id(): (l, img)})
    memo[(kind, cid)] = (c, l)
    memo[('caseimg', kind)][l.get_id()] = l
    memo.setdefault('caseorig', {})[l.get_id()] = c
    return l


def is_symstr(x):
    return isinstance(x, SymStr)


def _elems(x, want_bytes):
    """element list of str/bytes/SymStr/SymBytes, or None if x is of the wrong kind"""
    if isinstance(x, SymStr):
        if x._bytes != want_bytes:
            return None
        return x.ch
    if want_bytes:
        if isinstance(x, (bytes, bytearray)):
            return list(x)
        return None
    if isinstance(x, str):
        return [ord(c) for c in x]
    return None


def _ceq(a, b):
    """element equality -> bool or z3 Bool"""
    if isinstance(a, int) and isinstance(b, int):
        return a == b
    return a == b


class SymStr:
    __slots__ = ('ch',)
    _sx_symbolic = True
    _bytes = False

    def __init__(self, ch):
        self.ch = list(ch)

    # -------------------------------------------------------------- construction helpers
    @classmethod
    def mk(cls, ch):
        ch = list(ch)
        for c in ch:
            if not isinstance(c, int):
                return cls(ch)
        if cls._bytes:
            return bytes(ch)
        return ''.join(map(chr, ch))

    def _coerce(self, o):
        return _elems(o, self._bytes)

    def is_concrete(self):
        return all(isinstance(c, int) for c in self.ch)

    def concrete(self):
        return self.mk(self.ch)

    def realise(self):
        e = eng()
        out = [e.realise_int(c) for c in self.ch]
        return bytes(out) if self._bytes else ''.join(map(chr, out))

    def model_value(self, model):
        out = []
        for c in self.ch:
            if isinstance(c, int):
                out.append(c)
            else:
                out.append(model.eval(c, model_completion=True).as_long())
        return bytes(out) if self._bytes else ''.join(map(chr, out))

    # -------------------------------------------------------------- protocol
    def __len__(self):
        return len(self.ch)

    def __bool__(self):
        return bool(self.ch)

    def __iter__(self):
        if self._bytes:
            for c in self.ch:
                yield c if isinstance(c, int) else SymInt(c)
        else:
            for c in self.ch:
                yield chr(c) if isinstance(c, int) else SymStr([c])

    def __getitem__(self, i):
        if isinstance(i, slice):
            start, stop, step = i.start, i.stop, i.step
            if isinstance(start, SymInt):
                start = int(start)
            if isinstance(stop, SymInt):
                stop = int(stop)
            if isinstance(step, SymInt):
                step = int(step)
            return self.mk(self.ch[slice(start, stop, step)])
        if isinstance(i, (SymInt, SymBool)):
            i = int(i)
        c = self.ch[i]
        if self._bytes:
            return c if isinstance(c, int) else SymInt(c)
        return chr(c) if isinstance(c, int) else type(self)([c])

    def __hash__(self):
        return hash(self.realise())

    def __str__(self):
        if self._bytes:
            return repr(self)
        return self.realise()

    def __repr__(self):
        def f(c):
            if isinstance(c, int):
                return chr(c) if 32 <= c < 127 else '\\u{%x}' % c
            return '<%s>' % c
        return '%s(%s)' % (type(self).__name__, ''.join(f(c) for c in self.ch))

    def __format__(self, spec):
        return format(self.realise(), spec)

    # -------------------------------------------------------------- comparisons
    def __eq__(self, o):
        oc = self._coerce(o)
        if oc is None or len(oc) != len(self.ch):
            return False
        parts = []
        for a, b in zip(self.ch, oc):
            r = _ceq(a, b)
            if r is False:
                return False
            if r is not True:
                parts.append(r)
        return sym_and(*parts)

    def __ne__(self, o):
        return sym_not(self.__eq__(o))

    def _lex(self, o, op):
        oc = self._coerce(o)
        if oc is None:
            return NotImplemented
        e = eng()
        less = op in ('<', '<=')
        for a, b in zip(self.ch, oc):
            if isinstance(a, int) and isinstance(b, int):
                if a != b:
                    return (a < b) == less
            elif e.branch(_z(a) != _z(b)):
                return e.branch(_z(a) < _z(b)) == less
        if len(self.ch) == len(oc):
            return op in ('<=', '>=')
        return (len(self.ch) < len(oc)) == less

    def __lt__(self, o):
        return self._lex(o, '<')

    def __le__(self, o):
        return self._lex(o, '<=')

    def __gt__(self, o):
        return self._lex(o, '>')

    def __ge__(self, o):
        return self._lex(o, '>=')

    # -------------------------------------------------------------- concatenation
    def __add__(self, o):
        oc = self._coerce(o)
        if oc is None:
            return NotImplemented
        return self.mk(self.ch + oc)

    def __radd__(self, o):
        oc = self._coerce(o)
        if oc is None:
            return NotImplemented
        return self.mk(oc + self.ch)

    def __mul__(self, n):
        if isinstance(n, (SymInt, SymBool)):
            n = int(n)
        return self.mk(self.ch * n)
    __rmul__ = __mul__

    def __mod__(self, args):
        raise Unsupported('symbolic format string')

    # -------------------------------------------------------------- searching
    def _match_at(self, i, sub):
        """z3/bool: self[i:i+len(sub)] == sub"""
        if i < 0 or i + len(sub) > len(self.ch):
            return False
        parts = []
        for k, b in enumerate(sub):
            r = _ceq(self.ch[i + k], b)
            if r is False:
                return False
            if r is not True:
                parts.append(r)
        return sym_and(*parts)

    def __contains__(self, sub):
        return bool(self.contains(sub))

    def contains(self, sub):
        if self._bytes and isinstance(sub, (int, SymInt)):
            sub_e = [_int_e(sub)]
        else:
            sub_e = self._coerce(sub)
        if sub_e is None:
            raise TypeError('bad operand for in')
        if not sub_e:
            return True
        return sym_or(*[self._match_at(i, sub_e) for i in range(len(self.ch) - len(sub_e) + 1)])

    def _norm_range(self, start, end):
        n = len(self.ch)
        if isinstance(start, (SymInt, SymBool)):
            start = int(start)
        if isinstance(end, (SymInt, SymBool)):
            end = int(end)
        if start is None:
            start = 0
        if end is None:
            end = n
        if start < 0:
            start = max(0, n + start)
        if end < 0:
            end = max(0, n + end)
        return start, min(end, n)

    def startswith(self, prefix, start=None, end=None):
        if isinstance(prefix, tuple):
            return sym_or(*[self.startswith(p, start, end) for p in prefix])
        pc = self._coerce(prefix)
        if pc is None:
            raise TypeError('startswith arg')
        s, e = self._norm_range(start, end)
        if s + len(pc) > e:
            return False
        return self._match_at(s, pc)

    def endswith(self, suffix, start=None, end=None):
        if isinstance(suffix, tuple):
            return sym_or(*[self.endswith(p, start, end) for p in suffix])
        pc = self._coerce(suffix)
        if pc is None:
            raise TypeError('endswith arg')
        s, e = self._norm_range(start, end)
        if e - len(pc) < s:
            return False
        return self._match_at(e - len(pc), pc)

    def find(self, sub, start=None, end=None):
        sc = self._coerce(sub)
        if sc is None:
            raise TypeError('find arg')
        s, e = self._norm_range(start, end)
        res = -1
        for i in range(e - len(sc), s - 1, -1):
            m = self._match_at(i, sc)
            if m is True:
                res = i
            elif m is not False:
                res = z3.If(m.e, i, _z(res))
        return _mkint(res) if not isinstance(res, int) else res

    def rfind(self, sub, start=None, end=None):
        sc = self._coerce(sub)
        if sc is None:
            raise TypeError('rfind arg')
        s, e = self._norm_range(start, end)
        res = -1
        for i in range(s, e - len(sc) + 1):
            m = self._match_at(i, sc)
            if m is True:
                res = i
            elif m is not False:
                res = z3.If(m.e, i, _z(res))
        return _mkint(res) if not isinstance(res, int) else res

    def index(self, sub, start=None, end=None):
        r = self.find(sub, start, end)
        if isinstance(r, SymInt):
            if eng().branch(r.e == -1):
                raise ValueError('substring not found')
            return r
        if r == -1:
            raise ValueError('substring not found')
        return r

    def count(self, sub, start=None, end=None):
        sc = self._coerce(sub)
        if sc is None:
            raise TypeError('count arg')
        s, e = self._norm_range(start, end)
        if len(sc) == 1:
            tot = 0
            for i in range(s, e):
                m = self._match_at(i, sc)
                if m is True:
                    tot = tot + 1
                elif m is not False:
                    tot = tot + z3.If(m.e, 1, 0)
            return tot if isinstance(tot, int) else _mkint(tot)
        if not sc:
            return e - s + 1
        cnt = 0
        i = s
        while i + len(sc) <= e:
            if self._match_at(i, sc):
                cnt += 1
                i += len(sc)
            else:
                i += 1
        return cnt

    # -------------------------------------------------------------- transformation
    def replace(self, old, new, count=-1):
        oc, nc = self._coerce(old), self._coerce(new)
        if oc is None or nc is None:
            raise TypeError('replace args')
        if isinstance(count, SymInt):
            count = int(count)
        if len(oc) == 1 and len(nc) == 1 and count < 0:
            out = []
            for c in self.ch:
                r = _ceq(c, oc[0])
                if r is True:
                    out.append(nc[0])
                elif r is False:
                    out.append(c)
                else:
                    out.append(z3.If(r, _z(nc[0]), _z(c)))
            return self.mk(_simp(out))
        if not oc:
            raise Unsupported('replace of empty pattern on symbolic string')
        out = []
        i = 0
        n = 0
        while i < len(self.ch):
            if (count < 0 or n < count) and i + len(oc) <= len(self.ch) and self._match_at(i, oc):
                out.extend(nc)
                i += len(oc)
                n += 1
            else:
                out.append(self.ch[i])
                i += 1
        return self.mk(out)

    def _strip_mask(self, chars):
        if chars is None:
            if self._bytes:
                return Mask.of(b' \t\n\r\x0b\x0c')
            return _pred_mask('isspace')
        cc = self._coerce(chars)
        if cc is None:
            raise TypeError('strip arg')
        if not all(isinstance(c, int) for c in cc):
            raise Unsupported('strip with symbolic character set')
        return Mask.of(cc)

    def _in_mask(self, c, mask):
        if isinstance(c, int):
            return c in mask
        return eng().branch(mask.formula(c))

    def lstrip(self, chars=None):
        m = self._strip_mask(chars)
        i = 0
        while i < len(self.ch) and self._in_mask(self.ch[i], m):
            i += 1
        return self.mk(self.ch[i:])

    def rstrip(self, chars=None):
        m = self._strip_mask(chars)
        j = len(self.ch)
        while j > 0 and self._in_mask(self.ch[j - 1], m):
            j -= 1
        return self.mk(self.ch[:j])

    def strip(self, chars=None):
        m = self._strip_mask(chars)
        i = 0
        while i < len(self.ch) and self._in_mask(self.ch[i], m):
            i += 1
        j = len(self.ch)
        while j > i and self._in_mask(self.ch[j - 1], m):
            j -= 1
        return self.mk(self.ch[i:j])

    def split(self, sep=None, maxsplit=-1):
        if isinstance(maxsplit, SymInt):
            maxsplit = int(maxsplit)
        out = []
        if sep is None:
            m = self._strip_mask(None)
            i = 0
            n = len(self.ch)
            while True:
                while i < n and self._in_mask(self.ch[i], m):
                    i += 1
                if i >= n:
                    break
                if maxsplit >= 0 and len(out) >= maxsplit:
                    # rest (with trailing whitespace kept, leading removed)
                    out.append(self.mk(self.ch[i:]))
                    break
                j = i
                while j < n and not self._in_mask(self.ch[j], m):
                    j += 1
                out.append(self.mk(self.ch[i:j]))
                i = j
            return out
        sc = self._coerce(sep)
        if sc is None:
            raise TypeError('split arg')
        if not sc:
            raise ValueError('empty separator')
        i = 0
        cur = 0
        while i + len(sc) <= len(self.ch):
            if (maxsplit < 0 or len(out) < maxsplit) and self._match_at(i, sc):
                out.append(self.mk(self.ch[cur:i]))
                i += len(sc)
                cur = i
            else:
                i += 1
        out.append(self.mk(self.ch[cur:]))
        return out

    def splitlines(self, keepends=False):
        raise Unsupported('splitlines on symbolic string')

    def join(self, it):
        parts = list(it)
        out = []
        for k, p in enumerate(parts):
            pc = self._coerce(p)
            if pc is None:
                raise TypeError('sequence item %d: expected str instance' % k)
            if k:
                out.extend(self.ch)
            out.extend(pc)
        return self.mk(out)

    def _case(self, kind):
        out = []
        for c in self.ch:
            r = _case_char(c, kind)
            if isinstance(r, list):
                out.extend(r)
            else:
                out.append(r)
        return self.mk(_simp(out))

    def lower(self):
        if self._bytes:
            return self.mk(_simp([c if isinstance(c, int) and not 65 <= c <= 90 else
                                  (c + 32 if isinstance(c, int) else
                                   z3.If(z3.And(c >= 65, c <= 90), c + 32, c)) for c in self.ch]))
        return self._case('lower')

    def upper(self):
        if self._bytes:
            return self.mk(_simp([c if isinstance(c, int) and not 97 <= c <= 122 else
                                  (c - 32 if isinstance(c, int) else
                                   z3.If(z3.And(c >= 97, c <= 122), c - 32, c)) for c in self.ch]))
        return self._case('upper')

    def capitalize(self):
        if not self.ch:
            return self.mk([])
        first = type(self)(self.ch[:1]).upper()
        rest = type(self)(self.ch[1:]).lower() if len(self.ch) > 1 else ''
        return first + rest if not isinstance(first, str) or not isinstance(rest, str) else first + rest

    def _all_pred(self, name):
        if not self.ch:
            return False
        m = _pred_mask(name)
        parts = []
        for c in self.ch:
            if isinstance(c, int):
                if c not in m:
                    return False
            else:
                parts.append(m.formula(c))
        return sym_and(*parts)

    def isdigit(self):
        return self._all_pred('isdigit')

    def isspace(self):
        return self._all_pred('isspace')

    def isalpha(self):
        return self._all_pred('isalpha')

    def isalnum(self):
        return self._all_pred('isalnum')

    def encode(self, encoding='utf-8', errors='strict'):
        from . import pycodecs
        return pycodecs.encode(self, encoding, errors)

    def format(self, *a, **k):
        raise Unsupported('symbolic format string')


class SymBytes(SymStr):
    __slots__ = ()
    _bytes = True

    def decode(self, encoding='utf-8', errors='strict'):
        from . import pycodecs
        return pycodecs.decode(self, encoding, errors)

    def encode(self, *a, **k):
        raise AttributeError("'bytes' object has no attribute 'encode'")


def _z(c):
    return z3.IntVal(c) if isinstance(c, int) else c


def _simp(chars):
    out = []
    for c in chars:
        if not isinstance(c, int):
            c = z3.simplify(c)
            if z3.is_int_value(c):
                c = c.as_long()
        out.append(c)
    return out


CASE_REPRESENTATIVES = [
    0xC0, 0xE0,        # À à   (+32 block)
    0x100, 0x101,      # Ā ā   (alternating pairs)
    0x3A3, 0x3C3, 0x3C2,  # Σ σ ς
    0x212A,            # KELVIN SIGN -> k
    0x17F,             # LONG S -> upper S
    0x130, 0x131,      # İ ı
    0xDF, 0x1E9E,      # ß ẞ
    0x1C5, 0x1C4, 0x1C6,  # ǅ Ǆ ǆ
    0xB5, 0x39C, 0x3BC,   # µ Μ μ
    0x2126, 0x3C9, 0x3A9,  # Ω(ohm) ω Ω
    0x212B, 0xE5, 0xC5,   # Å(angstrom) å Å
    0x10400, 0x10428,  # Deseret (astral cased pair)
]


def reduced_alphabet():
    """all code points except the non-ASCII cased letters (those changed by lower()/upper()),
    of which a list of representatives covering every mapping shape is kept.  Used by the
    whole-pipeline harnesses to keep the case-folding terms small; stated in their evidence."""
    key = 'reduced_alphabet'
    if key not in _tables:
        ch = []
        for kind in ('lower', 'upper'):
            ranges, special, single = _case_ranges(kind)
            ch.extend((c, c) for c in single if c >= 128)
            ch.extend((c, c) for c in special if c >= 128)
        excl = Mask(ch).minus(Mask((c, c) for c in CASE_REPRESENTATIVES))
        _tables[key] = excl.neg()
    return _tables[key]


def fresh_str(n, prefix='c', mask=None):
    """a string of n symbolic code points (all of Unicode, or restricted to mask)"""
    e = eng()
    ch = []
    for i in range(n):
        v = e.fresh_int(prefix, 0, MAXCP)
        if mask is not None:
            e.assume(mask.formula(v), {v.get_id(): (v, mask)})
        ch.append(v)
    return SymStr(ch)


def fresh_bytes(n, prefix='y'):
    e = eng()
    return SymBytes([e.fresh_int(prefix, 0, 255) for _ in range(n)])


def lift(x):
    """collapse a fully concrete SymStr to str"""
    if isinstance(x, SymStr):
        return x.concrete()
    return x


def unlift(x):
    if isinstance(x, str):
        return SymStr([ord(c) for c in x])
    if isinstance(x, (bytes, bytearray)):
        return SymBytes(list(x))
    return x
