"""Interval sets of code points (or byte values) used by the symbolic string layer."""

import z3

MAXCP = 0x10FFFF


class Mask:
    __slots__ = ('iv', '_h', '_fc', '_hc')

    def __init__(self, iv=()):
        # iv: iterable of (lo, hi) inclusive; normalised (sorted, merged)
        iv = sorted((lo, hi) for lo, hi in iv if lo <= hi)
        out = []
        for lo, hi in iv:
            if out and lo <= out[-1][1] + 1:
                if hi > out[-1][1]:
                    out[-1] = (out[-1][0], hi)
            else:
                out.append((lo, hi))
        self.iv = tuple(out)
        self._h = hash(self.iv)
        self._fc = None
        self._hc = None

    @classmethod
    def of(cls, chars):
        return cls((ord(c), ord(c)) if isinstance(c, str) else (c, c) for c in chars)

    @classmethod
    def rng(cls, lo, hi):
        return cls(((lo, hi),))

    def __hash__(self):
        return self._h

    def __eq__(self, o):
        return isinstance(o, Mask) and self.iv == o.iv

    def __bool__(self):
        return bool(self.iv)

    def __contains__(self, c):
        # binary search
        iv = self.iv
        lo, hi = 0, len(iv)
        while lo < hi:
            mid = (lo + hi) // 2
            a, b = iv[mid]
            if c < a:
                hi = mid
            elif c > b:
                lo = mid + 1
            else:
                return True
        return False

    def union(self, o):
        return Mask(self.iv + o.iv)
    __or__ = union

    def inter(self, o):
        a, b = self.iv, o.iv
        if len(a) > len(b):
            a, b = b, a
        if not a:
            return EMPTY if 'EMPTY' in globals() else Mask()
        if len(b) > 8 * len(a):
            # few intervals against many: bisect into the long list
            import bisect
            his = o._his() if b is o.iv else self._his()
            out = []
            for lo, hi in a:
                j = bisect.bisect_left(his, lo)
                while j < len(b) and b[j][0] <= hi:
                    l2 = max(lo, b[j][0])
                    h2 = min(hi, b[j][1])
                    if l2 <= h2:
                        out.append((l2, h2))
                    j += 1
            return Mask(out)
        out = []
        i = j = 0
        while i < len(a) and j < len(b):
            lo = max(a[i][0], b[j][0])
            hi = min(a[i][1], b[j][1])
            if lo <= hi:
                out.append((lo, hi))
            if a[i][1] < b[j][1]:
                i += 1
            else:
                j += 1
        return Mask(out)

    def _his(self):
        h = self._hc
        if h is None:
            h = self._hc = [x[1] for x in self.iv]
        return h

    __and__ = inter

    def neg(self, top=MAXCP):
        out = []
        prev = 0
        for lo, hi in self.iv:
            if lo > prev:
                out.append((prev, lo - 1))
            prev = hi + 1
        if prev <= top:
            out.append((prev, top))
        return Mask(out)

    def minus(self, o, top=MAXCP):
        return self.inter(o.neg(top))

    def issubset(self, o):
        return not self.minus(o)

    def size(self):
        return sum(hi - lo + 1 for lo, hi in self.iv)

    def first(self):
        return self.iv[0][0]

    def values(self, limit=None):
        n = 0
        for lo, hi in self.iv:
            for c in range(lo, hi + 1):
                yield c
                n += 1
                if limit is not None and n >= limit:
                    return

    def formula(self, v):
        """z3 Bool: v in self (v is a z3 Int term)"""
        fc = self._fc
        if fc is None:
            fc = self._fc = {}
        hit = fc.get(v.get_id())
        if hit is not None:
            return hit[1]
        r = self._formula(v)
        if len(fc) > 2000:
            fc.clear()
        fc[v.get_id()] = (v, r)
        return r

    def _formula(self, v):
        parts = []
        for lo, hi in self.iv:
            if lo == hi:
                parts.append(v == lo)
            else:
                parts.append(z3.And(v >= lo, v <= hi))
        if not parts:
            return z3.BoolVal(False)
        if len(parts) == 1:
            return parts[0]
        return z3.Or(*parts)

    def __repr__(self):
        def f(c):
            return repr(chr(c)) if 32 <= c < 127 else 'U+%04X' % c
        return 'Mask[%s]' % ','.join(f(lo) if lo == hi else '%s-%s' % (f(lo), f(hi))
                                     for lo, hi in self.iv[:12]) + ('…' if len(self.iv) > 12 else '')


FULL = Mask.rng(0, MAXCP)
EMPTY = Mask()
