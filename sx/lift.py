"""Lifting: a semantics-preserving AST rewrite + import hook so that the *real* source of
cssutils / encutils (read from SX_ROOT, default /repo, at import time; never from byte-code
caches) can run on symbolic values (DESIGN 2.2).

Operators implemented in C that would ignore proxy objects are routed through helpers; each
helper performs the ordinary Python operation when no operand is symbolic.
"""

import ast
import importlib.abc
import importlib.machinery
import importlib.util
import os
import sys

import z3

from . import core
from .core import SymBool, SymInt, Unsupported, eng, sym_and, sym_or, sym_not, _mkint, _mkbool
from .symstr import SymStr, SymBytes, unlift
from .mask import Mask
from . import symre

SX_ROOT = os.environ.get('SX_ROOT', '/repo')
LIFTED_TOP = ('cssutils', 'encutils')

_SYMTYPES = (SymStr, SymInt, SymBool)


def _sym(x):
    return isinstance(x, _SYMTYPES) or getattr(x, '_sx_symdec', False)


# ---------------------------------------------------------------------- helpers (runtime)

def _sx_in(a, b):
    if isinstance(b, SymStr):
        return b.contains(a)
    if isinstance(a, SymStr):
        if isinstance(b, (str, bytes)):
            if len(a) == 1 and isinstance(b, str) and not a._bytes:
                c = a.ch[0]
                if isinstance(c, int):
                    return chr(c) in b
                return _mkbool(Mask.of(b).formula(c)) if b else False
            return unlift(b).contains(a)
        if isinstance(b, (dict, set, frozenset, list, tuple)) or hasattr(b, '__iter__'):
            n = len(a)
            parts = []
            for x in b:
                if isinstance(x, (str, SymStr, bytes)) and len(x) == n:
                    r = a.__eq__(x)
                    if r is True:
                        return True
                    if r is not False:
                        parts.append(r)
            return sym_or(*parts)
        return a in b
    if isinstance(a, (SymInt, SymBool)):
        if isinstance(b, (dict, set, frozenset, list, tuple, range)):
            if isinstance(b, range):
                if b.step == 1:
                    return sym_and(a >= b.start, a < b.stop)
            parts = []
            for x in b:
                r = a.__eq__(x)
                if r is True:
                    return True
                if r is not False:
                    parts.append(r)
            return sym_or(*parts)
        return a in b
    if isinstance(b, (list, tuple)):
        # elements may be symbolic
        for x in b:
            if _sym(x):
                parts = []
                for y in b:
                    r = (y == a)
                    if r is True:
                        return True
                    if r is not False and r is not NotImplemented:
                        parts.append(r)
                return sym_or(*parts)
        return a in b
    return a in b


def _sx_notin(a, b):
    return sym_not(_sx_in(a, b))


def _sx_getitem(o, k):
    if _sym(k) and isinstance(o, dict):
        if isinstance(k, SymStr):
            n = len(k)
            for key in o:
                if isinstance(key, (str, SymStr)) and len(key) == n and k == key:
                    return o[key]
            raise KeyError(k)
        for key in o:
            if k == key:
                return o[key]
        raise KeyError(k)
    return o[k]


_TYPEMAP = None


def _sx_isinstance(x, t):
    if getattr(x, '_sx_symdec', False):
        if isinstance(t, tuple):
            return any(_sx_isinstance(x, u) for u in t)
        try:
            return issubclass(float, t)
        except TypeError:
            return False
    if isinstance(x, _SYMTYPES):
        if isinstance(x, SymBytes):
            stand = bytes
        elif isinstance(x, SymStr):
            stand = str
        elif isinstance(x, SymBool):
            stand = bool
        else:
            stand = int
        if isinstance(t, tuple):
            return any(_sx_isinstance(x, u) for u in t)
        try:
            return issubclass(stand, t) or isinstance(x, t)
        except TypeError:
            return isinstance(x, t)
    return isinstance(x, t)


def _sx_str(*a, **k):
    if len(a) == 1 and not k:
        x = a[0]
        if isinstance(x, SymStr) and not x._bytes:
            return x
        if isinstance(x, SymInt):
            return _int_to_str(x)
        if isinstance(x, SymBool):
            return 'True' if x else 'False'
        if getattr(x, '_sx_symdec', False):
            raise Unsupported('str() of symbolic decimal')
    elif a and isinstance(a[0], SymBytes):
        return a[0].decode(*a[1:], **k)
    return str(*a, **k)


def _int_to_str(x):
    # decimal rendering of a symbolic int: fork on sign and number of digits (bounded); the
    # digits are fresh variables tied to x by one linear constraint (no div/mod terms)
    e = eng()
    neg = e.branch(x.e < 0)
    v = -x.e if neg else x.e
    nd = 1
    while not e.branch(v < 10 ** nd):
        nd += 1
        if nd > 20:
            raise Unsupported('str() of unbounded symbolic int')
    digs = []
    total = 0
    for k in range(nd - 1, -1, -1):
        d = e.fresh_int('dd', 48, 57)
        digs.append(d)
        total = total + (d - 48) * (10 ** k)
    e.assume(total == v)
    if nd > 1:
        e.assume(digs[0] != 48)
    return SymStr(([45] if neg else []) + digs)


_HEX = Mask.of('0123456789abcdefABCDEF')
_WS = None


def _sx_int(*a, **k):
    if not a:
        return int(**k)
    x = a[0]
    if isinstance(x, SymInt):
        return x
    if isinstance(x, SymBool):
        return _mkint(z3.If(x.e, 1, 0))
    if isinstance(x, SymStr) and not x.is_concrete():
        base = a[1] if len(a) > 1 else k.get('base', 10)
        return _parse_int(x, int(base))
    if isinstance(x, SymStr):
        x = x.concrete()
    if getattr(x, '_sx_symdec', False):
        return x.to_int()
    return int(x, *a[1:], **k)


def _parse_int(s, base):
    from .symstr import _pred_mask
    if base not in (10, 16):
        raise Unsupported('int() with base %r on symbolic string' % base)
    e = eng()
    s = s.strip()
    if not isinstance(s, SymStr):
        return int(s, base)
    ch = list(s.ch)
    if not ch:
        raise ValueError("invalid literal for int() with base %d: ''" % base)
    sign = 1
    c0 = ch[0]
    if (c0 == 45) if isinstance(c0, int) else e.branch(c0 == 45):
        sign = -1
        ch = ch[1:]
    elif (c0 == 43) if isinstance(c0, int) else e.branch(c0 == 43):
        ch = ch[1:]
    if not ch:
        raise ValueError('invalid literal for int()')
    if base == 16 and sign == 1:
        orig = e.memo.get('caseorig', {})
        ids = []
        for c in ch:
            if isinstance(c, int):
                ids = None
                break
            o = orig.get(c.get_id())
            ids.append(o.get_id() if o is not None else c.get_id())
        if ids:
            hit = e.memo.get(('hexprov', tuple(ids)))
            if hit is not None:
                return SymInt(hit)
    val = 0
    for c in ch:
        if isinstance(c, int):
            try:
                d = int(chr(c), base)
            except ValueError:
                raise ValueError('invalid literal for int() with base %d' % base)
        elif base == 16:
            if not e.branch(_HEX.formula(c)):
                if e.branch(_nonascii_digits().formula(c)) or e.branch(c == 95):
                    raise Unsupported('int(x, 16) on non-ASCII digit / underscore')
                raise ValueError('invalid literal for int() with base 16')
            d = _hexval(c)
        else:
            d = _digit_value(c)
        val = val * base + d
    return _mkint(sign * val)


_DIGIT_BLOCKS = None


def _digit_blocks():
    """start code points of the blocks of ten decimal digits (Unicode category Nd)"""
    global _DIGIT_BLOCKS
    if _DIGIT_BLOCKS is None:
        import unicodedata
        starts = []
        for cp in range(0x110000):
            ch = chr(cp)
            if ch.isdecimal() and unicodedata.decimal(ch) == 0:
                if all(chr(cp + i).isdecimal() and unicodedata.decimal(chr(cp + i)) == i
                       for i in range(10)):
                    starts.append(cp)
        _DIGIT_BLOCKS = starts
    return _DIGIT_BLOCKS


def _nonascii_digits():
    from .symstr import _pred_mask
    return _pred_mask('isdecimal').minus(Mask.rng(48, 57))


def _digit_value(c):
    """decimal digit value as int() / float() see it (any Unicode Nd digit); ValueError otherwise"""
    if isinstance(c, int):
        try:
            return int(chr(c))
        except ValueError:
            raise ValueError('invalid literal')
    e = eng()
    if e.branch(Mask.rng(48, 57).formula(c)):
        return c - 48
    if e.branch(_nonascii_digits().formula(c)):
        expr = None
        for st in _digit_blocks():
            if st == 48:
                continue
            expr = z3.If(z3.And(c >= st, c <= st + 9), c - st, expr if expr is not None else z3.IntVal(0))
        return expr
    if e.branch(c == 95):
        raise Unsupported('underscore in numeric literal')
    raise ValueError('invalid literal')


def _sx_float(*a):
    if a and isinstance(a[0], SymStr) and not a[0].is_concrete():
        from .symnum import SymDec
        return SymDec.parse(a[0])
    if a and isinstance(a[0], SymStr):
        return float(a[0].concrete())
    if a and isinstance(a[0], SymInt):
        from .symnum import SymDec
        return SymDec.from_int(a[0])
    if a and getattr(a[0], '_sx_symdec', False):
        return a[0]
    return float(*a)


def _sx_chr(x):
    if isinstance(x, SymInt):
        if not eng().branch(z3.And(x.e >= 0, x.e <= 0x10FFFF)):
            raise ValueError('chr() arg not in range(0x110000)')
        return SymStr([x.e])
    return chr(x)


def _sx_ord(x):
    if isinstance(x, SymStr):
        if len(x) != 1:
            raise TypeError('ord() expected a character, but string of length %d found' % len(x))
        c = x.ch[0]
        return c if isinstance(c, int) else SymInt(c)
    return ord(x)


_HEXLOW = Mask.of('0123456789abcdef')


def _hexval(c):
    return z3.If(c <= 57, c - 48, z3.If(c <= 70, c - 55, c - 87))


def _sx_hex(x):
    if isinstance(x, SymInt):
        e = eng()
        if e.branch(x.e < 0):
            raise Unsupported('hex() of negative symbolic int')
        nd = 1
        while not e.branch(x.e < 16 ** nd):
            nd += 1
            if nd > 16:
                raise Unsupported('hex() of unbounded symbolic int')
        digs = []
        total = 0
        for k in range(nd - 1, -1, -1):
            d = e.fresh_int('hd', 48, 102)
            e.assume(_HEXLOW.formula(d))
            digs.append(d)
            total = total + _hexval(d) * (16 ** k)
        e.assume(total == x.e)
        if nd > 1:
            e.assume(digs[0] != 48)
        # provenance: int(<these digits, in any letter case>, 16) is x again
        e.memo[('hexprov', tuple(d.get_id() for d in digs))] = x.e
        return SymStr([48, 120] + digs)
    return hex(x)


def _sx_repr(x):
    if isinstance(x, SymStr):
        # approximation (only ever used for messages): quotes around the content
        q = 39
        return SymStr.mk([q] + x.ch + [q])
    if isinstance(x, SymInt):
        return _int_to_str(x)
    return repr(x)


def _sx_bool(x=False):
    if isinstance(x, SymBool):
        return x
    if isinstance(x, SymInt):
        return x != 0
    return bool(x)


def _sx_len(x):
    return len(x)


def _sx_tuple_has_sym(r):
    if isinstance(r, tuple):
        return any(_sym(x) for x in r)
    if isinstance(r, dict):
        return any(_sym(x) for x in r.values())
    return _sym(r)


def _sx_mod(l, r):
    if isinstance(l, str):
        if _sx_tuple_has_sym(r):
            return _printf(l, r)
        try:
            return l % r
        except TypeError as e:
            if 'returned non-string' in str(e):
                # an object of the lifted package rendered itself with symbolic content
                return _printf(l, r)
            raise
    if isinstance(l, SymStr):
        if l.is_concrete():
            return _sx_mod(l.concrete(), r)
        raise Unsupported('symbolic format string')
    return l % r


def _printf(fmt, args):
    if isinstance(args, dict):
        mapping, args = args, ()
    else:
        mapping = None
        if not isinstance(args, tuple):
            args = (args,)
    out = []
    i = 0
    ai = 0
    n = len(fmt)
    while i < n:
        c = fmt[i]
        if c != '%':
            out.append(c)
            i += 1
            continue
        i += 1
        if i >= n:
            raise ValueError('incomplete format')
        if fmt[i] == '%':
            out.append('%')
            i += 1
            continue
        key = None
        if fmt[i] == '(':
            j = fmt.index(')', i)
            key = fmt[i + 1:j]
            i = j + 1
        j = i
        while fmt[j] in '-+ #0123456789.':
            j += 1
        spec = fmt[i:j]
        conv = fmt[j]
        i = j + 1
        if key is not None:
            v = mapping[key]
        else:
            if ai >= len(args):
                raise TypeError('not enough arguments for format string')
            v = args[ai]
            ai += 1
        if not _sym(v):
            if conv in 'rs' and not spec and not isinstance(v, (str, bytes, int, float, tuple, list, dict, type(None))):
                # objects of the lifted package may render themselves with symbolic content
                r = v.__repr__() if conv == 'r' or type(v).__str__ is object.__str__ else v.__str__()
                out.append(r)
                continue
            out.append(('%' + spec + conv) % (v,))
            continue
        if conv == 'f' and isinstance(v, SymInt):
            raise Unsupported('%f of symbolic int')
        if spec:
            raise Unsupported('format spec %r on symbolic value' % spec)
        if conv == 's':
            out.append(_sx_str(v))
        elif conv == 'r':
            out.append(_sx_repr(v))
        elif conv in 'di':
            out.append(_sx_str(_sx_int(v)))
        elif conv == 'f' and getattr(v, '_sx_symdec', False):
            out.append(v.format_f())
        else:
            raise Unsupported('format conversion %%%s on symbolic value' % conv)
    if mapping is None and ai != len(args):
        raise TypeError('not all arguments converted during string formatting')
    return symre._join(out, False)


def _sx_fmt(*parts):
    """f-string: parts are str constants or (value, conversion, spec) tuples"""
    out = []
    anysym = False
    for p in parts:
        if isinstance(p, str):
            out.append(p)
            continue
        v, conv, spec = p
        if _sym(v) or _sym(spec):
            if spec:
                raise Unsupported('format spec on symbolic value')
            anysym = True
            if conv == 114:
                out.append(_sx_repr(v))
            elif conv in (-1, 115):
                out.append(_sx_str(v))
            else:
                raise Unsupported('f-string conversion on symbolic value')
        else:
            if conv in (114, 115) and not spec and not isinstance(v, (str, bytes, int, float, tuple, list, dict, type(None))):
                r = v.__repr__() if conv == 114 or type(v).__str__ is object.__str__ else v.__str__()
                if isinstance(r, SymStr):
                    anysym = True
                out.append(r)
                continue
            if conv == 114:
                v = repr(v)
            elif conv == 115:
                v = str(v)
            elif conv == 97:
                v = ascii(v)
            out.append(format(v, spec or ''))
    if not anysym:
        return ''.join(out)
    return symre._join(out, False)


_STR_METHODS = frozenset([
    'startswith', 'endswith', 'find', 'rfind', 'index', 'count', 'replace', 'split', 'join',
    'strip', 'lstrip', 'rstrip', 'get', 'decode', 'encode', 'format', 'setdefault', 'pop',
    'partition', 'rsplit',
])


def _sx_call(o, name, *a, **k):
    """method call on a receiver that may be a plain str/bytes/dict with symbolic arguments"""
    if isinstance(o, (str, bytes)):
        if name == 'join':
            if a and not isinstance(a[0], (str, bytes, list, tuple)):
                a = (list(a[0]),) + a[1:]
            if any(isinstance(x, SymStr) for x in a[0]):
                return unlift(o).join(a[0])
        elif name == 'format':
            if any(_sym(x) for x in a) or any(_sym(x) for x in k.values()):
                return _str_format(o, a, k)
        elif name in ('decode', 'encode'):
            pass
        elif any(isinstance(x, SymStr) or (isinstance(x, tuple) and any(isinstance(y, SymStr) for y in x))
                 for x in a):
            return getattr(unlift(o), name)(*a, **k)
    elif isinstance(o, dict) and a and isinstance(a[0], tuple) and any(_sym(x) for x in a[0]) and name == 'get':
        key = a[0]
        for kk in o:
            if isinstance(kk, tuple) and len(kk) == len(key):
                if all(bool(x == y) if (_sym(x) or _sym(y)) else x == y for x, y in zip(key, kk)):
                    return o[kk]
        return a[1] if len(a) > 1 else None
    elif isinstance(o, dict) and a and _sym(a[0]):
        key = a[0]
        if name == 'get':
            for kk in o:
                if _keyeq(key, kk):
                    return o[kk]
            return a[1] if len(a) > 1 else None
        if name == 'pop':
            for kk in o:
                if _keyeq(key, kk):
                    return o.pop(kk)
            if len(a) > 1:
                return a[1]
            raise KeyError(key)
        if name == 'setdefault':
            for kk in o:
                if _keyeq(key, kk):
                    return o[kk]
            # falls through to native (realises the key)
    if name in ('encode', 'decode') and isinstance(o, (str, bytes)) and (any(_sym(x) for x in a) or any(_sym(x) for x in k.values())):
        from . import pycodecs
        return (pycodecs.encode if name == 'encode' else pycodecs.decode)(o, *a, **k)
    return getattr(o, name)(*a, **k)


def _keyeq(key, kk):
    if isinstance(key, SymStr):
        if not isinstance(kk, (str, SymStr)) or len(kk) != len(key):
            return False
    r = (key == kk)
    return bool(r)


def _str_format(fmt, a, k):
    import string as _string
    out = []
    auto = 0
    for lit, field, spec, conv in _string.Formatter().parse(fmt):
        if lit:
            out.append(lit)
        if field is None:
            continue
        if field == '':
            v = a[auto]
            auto += 1
        elif field.isdigit():
            v = a[int(field)]
        else:
            v = k[field]
        if _sym(v):
            if spec:
                raise Unsupported('format spec on symbolic value')
            out.append(_sx_repr(v) if conv == 'r' else _sx_str(v))
        else:
            if conv == 'r':
                v = repr(v)
            elif conv == 's':
                v = str(v)
            out.append(format(v, spec or ''))
    return symre._join(out, False)


def _sx_urljoin(base, url, *a, **k):
    import urllib.parse
    if isinstance(base, SymStr) and base.is_concrete():
        base = base.concrete()
    if isinstance(url, SymStr) and url.is_concrete():
        url = url.concrete()
    if not _sym(base) and not _sym(url):
        return urllib.parse.urljoin(base, url, *a, **k)
    if not base:
        return url
    if not url:
        return base
    if isinstance(base, str) and isinstance(url, SymStr):
        # A reference whose symbolic characters are none of the characters URL syntax gives a meaning to (and no
        # white space / control, which urlsplit strips) is treated by urljoin character by character: join with
        # unique private-use placeholders and put the symbolic characters back.
        from .core import eng
        from .mask import Mask
        special = Mask.of(':/?#.\\@[]%;=&').union(Mask.rng(0, 0x20)).union(Mask.rng(0x7f, 0xa0)).union(Mask.rng(0xE000, 0xF8FF))
        e = eng()
        back = {}
        chars = []
        for i, c in enumerate(url.ch):
            if isinstance(c, int):
                if 0xE000 <= c <= 0xF8FF:
                    raise Unsupported('urljoin on symbolic URL with a non-empty base')
                chars.append(chr(c))
            else:
                if e.branch(special.formula(c)):
                    raise Unsupported('urljoin on symbolic URL with a non-empty base')
                back[0xE000 + i] = c
                chars.append(chr(0xE000 + i))
        res = urllib.parse.urljoin(base, ''.join(chars), *a, **k)
        return SymStr([back.get(ord(ch), ord(ch)) for ch in res])
    raise Unsupported('urljoin on symbolic URL with a non-empty base')


class SymStringIO:
    """minimal text stream over a SymStr (read / seek / tell / getvalue)"""

    def __init__(self, value):
        self._v = value
        self._pos = 0

    def read(self, n=-1):
        if isinstance(n, (SymInt,)):
            n = int(n)
        if n is None or n < 0:
            r = self._v[self._pos:]
            self._pos = len(self._v)
        else:
            r = self._v[self._pos:self._pos + n]
            self._pos = min(len(self._v), self._pos + n)
        return r

    def seek(self, pos, whence=0):
        if isinstance(pos, SymInt):
            pos = int(pos)
        self._pos = max(0, min(len(self._v), pos if whence == 0 else self._pos + pos if whence == 1 else len(self._v) + pos))
        return self._pos

    def tell(self):
        return self._pos

    def getvalue(self):
        return self._v


class _IOFacade:
    def __getattr__(self, name):
        import io as _io
        return getattr(_io, name)

    def StringIO(self, *a, **k):
        import io as _io
        if a and isinstance(a[0], SymStr) and not a[0].is_concrete():
            return SymStringIO(a[0])
        if a and isinstance(a[0], SymStr):
            return _io.StringIO(a[0].concrete(), *a[1:], **k)
        return _io.StringIO(*a, **k)


def _sx_not(x):
    return sym_not(x) if isinstance(x, SymBool) else (not x)


HELPERS = {
    '_sx_in': _sx_in, '_sx_notin': _sx_notin, '_sx_getitem': _sx_getitem,
    '_sx_isinstance': _sx_isinstance, '_sx_str': _sx_str, '_sx_int': _sx_int,
    '_sx_float': _sx_float, '_sx_chr': _sx_chr, '_sx_ord': _sx_ord, '_sx_hex': _sx_hex,
    '_sx_repr': _sx_repr, '_sx_mod': _sx_mod, '_sx_fmt': _sx_fmt, '_sx_call': _sx_call,
    '_sx_re': symre.re_facade, '_sx_bool': _sx_bool, '_sx_urljoin': _sx_urljoin, '_sx_io': _IOFacade(),
}

from . import pycodecs as _pycodecs  # noqa: E402
HELPERS['_sx_codecs'] = _pycodecs.codecs_facade

# modules may register further facades (e.g. codecs) here: name -> object
MODULE_FACADES = {'re': '_sx_re', 'codecs': '_sx_codecs', 'io': '_sx_io'}


# ---------------------------------------------------------------------- AST transformer

_BUILTIN_MAP = {
    'isinstance': '_sx_isinstance', 'str': '_sx_str', 'int': '_sx_int', 'float': '_sx_float',
    'chr': '_sx_chr', 'ord': '_sx_ord', 'hex': '_sx_hex', 'repr': '_sx_repr',
}


class Lifter(ast.NodeTransformer):
    def _call(self, name, args, node):
        return ast.copy_location(
            ast.Call(func=ast.Name(id=name, ctx=ast.Load()), args=args, keywords=[]), node)

    def visit_Compare(self, node):
        self.generic_visit(node)
        if len(node.ops) == 1 and isinstance(node.ops[0], (ast.In, ast.NotIn)):
            name = '_sx_in' if isinstance(node.ops[0], ast.In) else '_sx_notin'
            return self._call(name, [node.left, node.comparators[0]], node)
        return node

    def visit_BinOp(self, node):
        self.generic_visit(node)
        if isinstance(node.op, ast.Mod):
            return self._call('_sx_mod', [node.left, node.right], node)
        return node

    def visit_JoinedStr(self, node):
        self.generic_visit(node)
        parts = []
        for v in node.values:
            if isinstance(v, ast.Constant):
                parts.append(v)
            elif isinstance(v, ast.FormattedValue):
                spec = v.format_spec if v.format_spec is not None else ast.Constant(value=None)
                parts.append(ast.Tuple(elts=[v.value, ast.Constant(value=v.conversion), spec],
                                       ctx=ast.Load()))
            else:
                return node
        return ast.fix_missing_locations(self._call('_sx_fmt', parts, node))

    def visit_FormattedValue(self, node):
        self.generic_visit(node)
        return node

    def visit_Subscript(self, node):
        self.generic_visit(node)
        if isinstance(node.ctx, ast.Load) and not isinstance(node.slice, (ast.Slice, ast.Tuple)):
            return self._call('_sx_getitem', [node.value, node.slice], node)
        return node

    def visit_Call(self, node):
        self.generic_visit(node)
        f = node.func
        if isinstance(f, ast.Name) and f.id in _BUILTIN_MAP:
            node.func = ast.copy_location(ast.Name(id=_BUILTIN_MAP[f.id], ctx=ast.Load()), f)
            return node
        if isinstance(f, ast.Attribute) and f.attr == 'urljoin':
            node.func = ast.copy_location(ast.Name(id='_sx_urljoin', ctx=ast.Load()), f)
            return node
        if (isinstance(f, ast.Attribute) and f.attr in _STR_METHODS
                and not any(isinstance(a, ast.Starred) for a in node.args)
                and not any(kw.arg is None for kw in node.keywords)):
            new = ast.Call(func=ast.Name(id='_sx_call', ctx=ast.Load()),
                           args=[f.value, ast.Constant(value=f.attr)] + node.args,
                           keywords=node.keywords)
            return ast.fix_missing_locations(ast.copy_location(new, node))
        return node

    def visit_Name(self, node):
        # function-valued builtins passed around as values, e.g. map(ord, ...)
        if isinstance(node.ctx, ast.Load) and node.id in ('ord', 'chr', 'hex'):
            return ast.copy_location(ast.Name(id=_BUILTIN_MAP[node.id], ctx=ast.Load()), node)
        return node

    def visit_Import(self, node):
        out = []
        for alias in node.names:
            if alias.name in MODULE_FACADES:
                tgt = alias.asname or alias.name
                out.append(ast.copy_location(ast.Assign(
                    targets=[ast.Name(id=tgt, ctx=ast.Store())],
                    value=ast.Name(id=MODULE_FACADES[alias.name], ctx=ast.Load())), node))
            else:
                out.append(ast.copy_location(ast.Import(names=[alias]), node))
        return [ast.fix_missing_locations(n) for n in out]


def lift_source(source, filename):
    tree = ast.parse(source, filename)
    # keep `from __future__` imports first
    tree = Lifter().visit(tree)
    ast.fix_missing_locations(tree)
    return compile(tree, filename, 'exec', dont_inherit=True)


# ---------------------------------------------------------------------- import hook

class _LiftLoader(importlib.machinery.SourceFileLoader):
    def get_code(self, fullname):
        path = self.get_filename(fullname)
        with open(path, 'rb') as f:
            data = f.read()
        return self.source_to_code(data, path)

    def source_to_code(self, data, path, *, _optimize=-1):
        if '/tests/' in path or path.endswith('conftest.py'):
            return compile(data, path, 'exec', dont_inherit=True)
        src = importlib.util.decode_source(data) if isinstance(data, bytes) else data
        return lift_source(src, path)

    def exec_module(self, module):
        module.__dict__.update(HELPERS)
        super().exec_module(module)


class _LiftFinder(importlib.abc.MetaPathFinder):
    def __init__(self, root):
        self.root = root

    def find_spec(self, fullname, path=None, target=None):
        top = fullname.split('.')[0]
        if top not in LIFTED_TOP:
            return None
        rel = fullname.replace('.', '/')
        base = os.path.join(self.root, rel)
        if os.path.isdir(base) and os.path.isfile(os.path.join(base, '__init__.py')):
            fn = os.path.join(base, '__init__.py')
            return importlib.util.spec_from_file_location(
                fullname, fn, loader=_LiftLoader(fullname, fn),
                submodule_search_locations=[base])
        fn = base + '.py'
        if os.path.isfile(fn):
            return importlib.util.spec_from_file_location(
                fullname, fn, loader=_LiftLoader(fullname, fn))
        return None


_installed = None


def install(root=None):
    """install the lifting import hook (idempotent); must run before cssutils is imported"""
    global _installed
    root = root or SX_ROOT
    if _installed:
        return
    for m in list(sys.modules):
        if m.split('.')[0] in LIFTED_TOP:
            raise core.HarnessError('%s imported before the lifting hook was installed' % m)
    sys.dont_write_bytecode = True
    sys.meta_path.insert(0, _LiftFinder(root))
    _installed = root
