"""SymDec: exact decimal numbers N / 10^k with N a z3 Int term, standing in for Python floats that
come from CSS number literals (DESIGN 2.5).  Justification: a decimal literal with at most 15
significant digits survives the round trip through binary64, and '%f' prints its correctly
rounded 6-place value, which for k <= 6 fractional digits is the literal itself.  Literals with
more than 15 significant digits or more than 6 fractional digits are outside the model
(Unsupported -> the path is inconclusive)."""
import z3

from .core import SymInt, SymBool, Unsupported, eng, _mkbool, _mkint, _int_e
from .mask import Mask

MAX_SIG = 15


class SymDec:
    _sx_symbolic = True
    _sx_symdec = True
    __slots__ = ('n', 'k', 'sig')

    def __init__(self, n, k, sig):
        self.n = n      # z3 Int term or int: scaled value
        self.k = k      # number of fractional digits (concrete)
        self.sig = sig  # upper bound on significant digits (concrete)

    # ------------------------------------------------------------ construction
    @classmethod
    def parse(cls, s):
        """float(s) for a symbolic string: [ws] [sign] digits [. digits] [ws]"""
        from .symstr import SymStr, _pred_mask
        from .lift import _digit_value
        e = eng()
        s = s.strip()
        if not isinstance(s, SymStr):
            return float(s)
        ch = list(s.ch)
        if not ch:
            raise ValueError('could not convert string to float')
        sign = 1

        def is_(c, v):
            return (c == v) if isinstance(c, int) else e.branch(c == v)
        if is_(ch[0], 45):
            sign = -1
            ch = ch[1:]
        elif is_(ch[0], 43):
            ch = ch[1:]
        n = 0
        k = None
        nd = 0
        for c in ch:
            if is_(c, 46):
                if k is not None:
                    raise ValueError('could not convert string to float')
                k = 0
                continue
            d = _digit_value(c)   # raises ValueError / Unsupported
            n = n * 10 + d
            nd += 1
            if k is not None:
                k += 1
        if nd == 0:
            raise ValueError('could not convert string to float')
        if nd > MAX_SIG:
            raise Unsupported('float() of a literal with more than %d digits' % MAX_SIG)
        return cls(sign * n if not isinstance(n, int) else sign * n, k or 0, nd)

    @classmethod
    def from_int(cls, x):
        return cls(x.e if isinstance(x, SymInt) else x, 0, MAX_SIG)

    def _scaled(self, k):
        return self.n * (10 ** (k - self.k))

    def _coerce(self, o):
        """(n_self, n_other) on a common scale"""
        if isinstance(o, SymDec):
            k = max(self.k, o.k)
            return self._scaled(k), o._scaled(k)
        oe = _int_e(o)
        if oe is not None:
            return self.n, oe * (10 ** self.k)
        if isinstance(o, float):
            if o == int(o):
                return self.n, int(o) * (10 ** self.k)
            raise Unsupported('SymDec compared with non-integral float')
        return None

    def _cmp(self, o, op):
        r = self._coerce(o)
        if r is None:
            return NotImplemented
        a, b = r
        res = op(a, b)
        return res if isinstance(res, bool) else _mkbool(res)

    def __eq__(self, o):
        r = self._cmp(o, lambda a, b: a == b)
        return False if r is NotImplemented else r

    def __ne__(self, o):
        r = self._cmp(o, lambda a, b: a != b)
        return True if r is NotImplemented else r

    def __lt__(self, o):
        return self._cmp(o, lambda a, b: a < b)

    def __le__(self, o):
        return self._cmp(o, lambda a, b: a <= b)

    def __gt__(self, o):
        return self._cmp(o, lambda a, b: a > b)

    def __ge__(self, o):
        return self._cmp(o, lambda a, b: a >= b)

    def __hash__(self):
        raise Unsupported('hash of symbolic decimal')

    def __bool__(self):
        r = self.n != 0
        return r if isinstance(r, bool) else eng().branch(r)

    def __neg__(self):
        return SymDec(-self.n, self.k, self.sig)

    def __abs__(self):
        if isinstance(self.n, int):
            return SymDec(abs(self.n), self.k, self.sig)
        return SymDec(z3.If(self.n >= 0, self.n, -self.n), self.k, self.sig)

    def to_int(self):
        """int(x): truncation toward zero"""
        if self.k == 0:
            return _mkint(self.n)
        p = 10 ** self.k
        if isinstance(self.n, int):
            return int(self.n / p) if False else (abs(self.n) // p) * (1 if self.n >= 0 else -1)
        return _mkint(z3.If(self.n >= 0, self.n / p, -((-self.n) / p)))

    __int__ = to_int

    def format_f(self):
        """'%f' % x  -> SymStr with exactly six fractional digits"""
        from .symstr import SymStr, _simp
        if self.k > 6:
            raise Unsupported("'%f' of a literal with more than 6 fractional digits")
        e = eng()
        n6 = self.n * (10 ** (6 - self.k))
        if isinstance(n6, int):
            return '%f' % (n6 / 10 ** 6)
        neg = e.branch(n6 < 0)
        v = -n6 if neg else n6
        # number of integer digits
        ni = 1
        while not e.branch(v < 10 ** (6 + ni)):
            ni += 1
            if ni > MAX_SIG + 1:
                raise Unsupported("'%f' of an unbounded symbolic decimal")
        digs = []
        total = 0
        for p in range(ni + 6 - 1, -1, -1):
            d = e.fresh_int('fd', 48, 57)
            digs.append(d)
            total = total + (d - 48) * (10 ** p)
        e.assume(total == v)
        ch = ([45] if neg else []) + digs[:ni] + [46] + digs[ni:]
        return SymStr(ch)

    def __repr__(self):
        return 'SymDec(%s / 10^%d)' % (self.n, self.k)

    def _unsupported(self, *a):
        raise Unsupported('arithmetic on symbolic decimal')

    def __mul__(self, o):
        if isinstance(o, float) and o == int(o):
            o = int(o)
        oe = _int_e(o)
        if oe is None:
            raise Unsupported('symbolic decimal times non-integer')
        return SymDec(self.n * oe, self.k, MAX_SIG)

    __rmul__ = __mul__

    def __truediv__(self, o):
        if isinstance(o, float) and o == int(o):
            o = int(o)
        if isinstance(o, int) and o > 0:
            p = pow10_exponent(o)
            if p is not None:
                return SymDec(self.n, self.k + p, MAX_SIG)
        raise Unsupported('division of a symbolic decimal by %r' % (o,))

    __add__ = __radd__ = __sub__ = __rsub__ = _unsupported
    __rtruediv__ = __floordiv__ = __mod__ = __round__ = _unsupported


def pow10_exponent(o):
    p = 0
    while o > 1 and o % 10 == 0:
        o //= 10
        p += 1
    return p if o == 1 else None


def symint_truediv(x, o):
    """SymInt / number"""
    return SymDec(x.e, 0, MAX_SIG).__truediv__(o)
