"""Pure-Python text codecs that accept SymStr / SymBytes (DESIGN 2.5).

Modelled: ascii, latin-1, utf-8, utf-8-sig, utf-16 (BOM), utf-16-le/be, utf-32 (BOM),
utf-32-le/be.  Error handlers: 'strict' and any handler registered with codecs.register_error
(called with a duck-typed error object, so handlers written in lifted code such as cssutils'
'escapecss' run on symbolic data).  Each coder is validated against the C codec on concrete
corpora by tools/selfcheck.py.
"""
import codecs as _codecs

import z3

from .core import eng, Unsupported, SymInt, active

FORCE_MODEL = False   # selfcheck: run the Python coders on concrete data too
from .symstr import SymStr, SymBytes, _simp

__all__ = ['encode', 'decode', 'canonical', 'SUPPORTED']

_ALIASES = {
    'ascii': 'ascii', 'latin-1': 'latin-1', 'iso8859-1': 'latin-1', 'utf-8': 'utf-8',
    'utf-8-sig': 'utf-8-sig', 'utf-16': 'utf-16', 'utf-16-le': 'utf-16-le',
    'utf-16-be': 'utf-16-be', 'utf-32': 'utf-32', 'utf-32-le': 'utf-32-le',
    'utf-32-be': 'utf-32-be',
}
SUPPORTED = sorted(set(_ALIASES.values()))


def _concrete_name(name):
    """a concrete encoding name that resolves like the (possibly symbolic) one on this path"""
    if isinstance(name, SymStr):
        if name.is_concrete():
            return name.concrete()
        return CodecsFacade._sym_lookup_name(name)
    return name


def canonical(name):
    name = _concrete_name(name)
    try:
        n = _codecs.lookup(name).name
    except LookupError:
        raise
    n = n.replace('_', '-')
    return _ALIASES.get(n, n)


class _DuckEncodeError:
    """what a registered error handler receives (UnicodeEncodeError cannot hold a SymStr)"""

    def __init__(self, encoding, obj, start, end, reason):
        self.encoding, self.object, self.start, self.end, self.reason = encoding, obj, start, end, reason


def _b(c, e):
    return e.branch(c) if not isinstance(c, bool) else c


def _lt(c, n):
    return (c < n) if isinstance(c, int) else (c < n)


def _handle_enc(errors, encoding, s, i, reason):
    """returns (replacement elements as code points list-of-(int|term), next index)"""
    if errors == 'strict':
        raise UnicodeEncodeError(encoding, '?' * len(s), i, i + 1, reason)
    if errors == 'ignore':
        return [], i + 1
    if errors == 'replace':
        return [63], i + 1
    handler = _codecs.lookup_error(errors)
    rep, nxt = handler(_DuckEncodeError(encoding, s, i, i + 1, reason))
    if isinstance(rep, SymStr):
        return list(rep.ch), int(nxt)
    if isinstance(rep, str):
        return [ord(c) for c in rep], int(nxt)
    raise Unsupported('error handler returned %s' % type(rep).__name__)


def _is(e, c, pred_int, pred_z3):
    if isinstance(c, int):
        return pred_int(c)
    return e.branch(pred_z3(c))


# provenance of symbolic encodings: id(SymBytes) -> (SymBytes, canonical encoding, encoded text).
# decode(encode(t, E), E) returns t without re-deriving it from div/mod terms (the coders are
# mutually inverse on everything encode() accepts; tools/selfcheck.py checks that with the
# shortcut disabled).
_PROV = {}
USE_PROVENANCE = True


def _remember(b, enc, text_elems, skip):
    if isinstance(b, SymStr) and USE_PROVENANCE:
        if len(_PROV) > 64:
            _PROV.clear()
        _PROV[id(b)] = (b, enc, text_elems, skip)
    return b


def encode(s, encoding='utf-8', errors='strict'):
    encoding = _concrete_name(encoding)
    if isinstance(s, str):
        s = SymStr([ord(c) for c in s])
    if s.is_concrete() and not FORCE_MODEL:
        return s.concrete().encode(encoding, errors)
    enc = canonical(encoding)
    if enc not in SUPPORTED:
        raise Unsupported('encode to %s on symbolic string' % enc)
    e = eng() if active() else None
    out = []
    src = []      # the code points actually encoded (after error-handler replacements)
    if enc == 'utf-8-sig':
        out.extend([0xEF, 0xBB, 0xBF])
    elif enc == 'utf-16':
        out.extend([0xFF, 0xFE])
    elif enc == 'utf-32':
        out.extend([0xFF, 0xFE, 0, 0])
    base = {'utf-8-sig': 'utf-8', 'utf-16': 'utf-16-le', 'utf-32': 'utf-32-le'}.get(enc, enc)
    i = 0
    ch = s.ch
    n = len(ch)
    while i < n:
        c = ch[i]
        if base in ('ascii', 'latin-1'):
            lim = 128 if base == 'ascii' else 256
            if _is(e, c, lambda v: v < lim, lambda v: v < lim):
                out.append(c)
                src.append(c)
                i += 1
            else:
                rep, i = _handle_enc(errors, enc, s, i, 'ordinal not in range(%d)' % lim)
                for r in rep:
                    if not _is(e, r, lambda v: v < lim, lambda v: v < lim):
                        raise UnicodeEncodeError(enc, '?' * n, i - 1, i, 'replacement not encodable')
                    out.append(r)
                    src.append(r)
            continue
        # surrogates cannot be encoded by the UTF family
        if _is(e, c, lambda v: 0xD800 <= v <= 0xDFFF, lambda v: z3.And(v >= 0xD800, v <= 0xDFFF)):
            rep, i = _handle_enc(errors, enc, s, i, 'surrogates not allowed')
            sub = SymStr(rep) if rep else ''
            if rep:
                r = encode(sub, base, 'strict')
                out.extend(r.ch if isinstance(r, SymStr) else list(r))
                src.extend(rep)
            continue
        if base == 'utf-8':
            if _is(e, c, lambda v: v < 0x80, lambda v: v < 0x80):
                out.append(c)
            elif _is(e, c, lambda v: v < 0x800, lambda v: v < 0x800):
                out.extend([0xC0 + _div(c, 64), 0x80 + _mod(c, 64)])
            elif _is(e, c, lambda v: v < 0x10000, lambda v: v < 0x10000):
                out.extend([0xE0 + _div(c, 4096), 0x80 + _mod(_div(c, 64), 64), 0x80 + _mod(c, 64)])
            else:
                out.extend([0xF0 + _div(c, 262144), 0x80 + _mod(_div(c, 4096), 64),
                            0x80 + _mod(_div(c, 64), 64), 0x80 + _mod(c, 64)])
        elif base in ('utf-16-le', 'utf-16-be'):
            if _is(e, c, lambda v: v < 0x10000, lambda v: v < 0x10000):
                units = [c]
            else:
                v = c - 0x10000
                units = [0xD800 + _div(v, 1024), 0xDC00 + _mod(v, 1024)]
            for u in units:
                lo, hi = _mod(u, 256), _div(u, 256)
                out.extend([lo, hi] if base.endswith('le') else [hi, lo])
        else:  # utf-32
            bs = [_mod(c, 256), _mod(_div(c, 256), 256), _mod(_div(c, 65536), 256), 0]
            out.extend(bs if base.endswith('le') else bs[::-1])
        src.append(c)
        i += 1
    return _remember(SymBytes.mk(_simp(out)), enc, src, 0)


def _div(c, k):
    return c // k if isinstance(c, int) else c / k


def _mod(c, k):
    return c % k if isinstance(c, int) else c % k


def _dec_error(enc, n, start, end, reason, errors):
    if errors == 'strict':
        raise UnicodeDecodeError(enc, b'?' * n, start, end, reason)
    if errors == 'ignore':
        return []
    if errors == 'replace':
        return [0xFFFD]
    raise Unsupported('decode error handler %r on symbolic bytes' % errors)


def decode(b, encoding='utf-8', errors='strict', final=True, return_consumed=False):
    """decode SymBytes; with final=False an incomplete trailing sequence is left unconsumed"""
    if isinstance(b, (bytes, bytearray)):
        b = SymBytes(list(b))
    encoding = _concrete_name(encoding)
    enc = canonical(encoding)
    if b.is_concrete() and final and not return_consumed and not FORCE_MODEL:
        return b.concrete().decode(encoding, errors)
    if enc not in SUPPORTED:
        raise Unsupported('decode from %s on symbolic bytes' % enc)
    prov = _PROV.get(id(b))
    if prov is not None and prov[0] is b and prov[1] == enc and USE_PROVENANCE:
        res = SymStr.mk(prov[2])
        return (res, len(b)) if return_consumed else res
    e = eng() if active() else None
    by = b.ch
    n = len(by)
    out = []
    i = 0
    base = enc
    if enc == 'utf-8-sig':
        base = 'utf-8'
        # skip BOM if present (needs 3 bytes to decide)
        if n >= 3:
            if (_is(e, by[0], lambda v: v == 0xEF, lambda v: v == 0xEF)
                    and _is(e, by[1], lambda v: v == 0xBB, lambda v: v == 0xBB)
                    and _is(e, by[2], lambda v: v == 0xBF, lambda v: v == 0xBF)):
                i = 3
        elif not final:
            # could still become a BOM
            pre = [0xEF, 0xBB, 0xBF][:n]
            if all(_is(e, by[k], lambda v, k=k: v == pre[k], lambda v, k=k: v == pre[k]) for k in range(n)):
                return ('', 0) if return_consumed else ''
    elif enc in ('utf-16', 'utf-32'):
        w = 2 if enc == 'utf-16' else 4
        if n < w:
            if final and n:
                out.extend(_dec_error(enc, n, 0, n, 'truncated data', errors))
                return (SymStr.mk(out), n) if return_consumed else SymStr.mk(out)
            return ('', 0) if return_consumed else ''
        le = [0xFF, 0xFE] + ([0, 0] if w == 4 else [])
        be = ([0, 0] if w == 4 else []) + [0xFE, 0xFF]
        if all(_is(e, by[k], lambda v, k=k: v == le[k], lambda v, k=k: v == le[k]) for k in range(w)):
            base, i = enc + '-le', w
        elif all(_is(e, by[k], lambda v, k=k: v == be[k], lambda v, k=k: v == be[k]) for k in range(w)):
            base, i = enc + '-be', w
        else:
            base = enc + '-le'    # native order of this platform
    while i < n:
        c = by[i]
        if base == 'ascii':
            if _is(e, c, lambda v: v < 128, lambda v: v < 128):
                out.append(c)
            else:
                out.extend(_dec_error(enc, n, i, i + 1, 'ordinal not in range(128)', errors))
            i += 1
        elif base == 'latin-1':
            out.append(c)
            i += 1
        elif base == 'utf-8':
            if _is(e, c, lambda v: v < 0x80, lambda v: v < 0x80):
                out.append(c)
                i += 1
                continue
            if _is(e, c, lambda v: v < 0xC2, lambda v: v < 0xC2):
                out.extend(_dec_error(enc, n, i, i + 1, 'invalid start byte', errors))
                i += 1
                continue
            if _is(e, c, lambda v: v < 0xE0, lambda v: v < 0xE0):
                need, lo, hi = 1, 0x80, 0xBF
            elif _is(e, c, lambda v: v < 0xF0, lambda v: v < 0xF0):
                need = 2
                if _is(e, c, lambda v: v == 0xE0, lambda v: v == 0xE0):
                    lo, hi = 0xA0, 0xBF
                elif _is(e, c, lambda v: v == 0xED, lambda v: v == 0xED):
                    lo, hi = 0x80, 0x9F
                else:
                    lo, hi = 0x80, 0xBF
            elif _is(e, c, lambda v: v < 0xF5, lambda v: v < 0xF5):
                need = 3
                if _is(e, c, lambda v: v == 0xF0, lambda v: v == 0xF0):
                    lo, hi = 0x90, 0xBF
                elif _is(e, c, lambda v: v == 0xF4, lambda v: v == 0xF4):
                    lo, hi = 0x80, 0x8F
                else:
                    lo, hi = 0x80, 0xBF
            else:
                out.extend(_dec_error(enc, n, i, i + 1, 'invalid start byte', errors))
                i += 1
                continue
            # continuation bytes
            k = 1
            bad = False
            incomplete = False
            while k <= need:
                if i + k >= n:
                    incomplete = True
                    break
                cb = by[i + k]
                l, h = (lo, hi) if k == 1 else (0x80, 0xBF)
                if not _is(e, cb, lambda v: l <= v <= h, lambda v: z3.And(v >= l, v <= h)):
                    bad = True
                    break
                k += 1
            if incomplete:
                if not final:
                    break
                out.extend(_dec_error(enc, n, i, n, 'unexpected end of data', errors))
                i = n
                continue
            if bad:
                out.extend(_dec_error(enc, n, i, i + k, 'invalid continuation byte', errors))
                i += k
                continue
            if need == 1:
                cp = (c - 0xC0) * 64 + (by[i + 1] - 0x80)
            elif need == 2:
                cp = (c - 0xE0) * 4096 + (by[i + 1] - 0x80) * 64 + (by[i + 2] - 0x80)
            else:
                cp = ((c - 0xF0) * 262144 + (by[i + 1] - 0x80) * 4096 + (by[i + 2] - 0x80) * 64
                      + (by[i + 3] - 0x80))
            out.append(cp)
            i += need + 1
        elif base in ('utf-16-le', 'utf-16-be'):
            if i + 1 >= n:
                if not final:
                    break
                out.extend(_dec_error(enc, n, i, n, 'truncated data', errors))
                i = n
                continue
            u = (by[i] + by[i + 1] * 256) if base.endswith('le') else (by[i] * 256 + by[i + 1])
            if _is(e, u, lambda v: v < 0xD800 or v > 0xDFFF, lambda v: z3.Or(v < 0xD800, v > 0xDFFF)):
                out.append(u)
                i += 2
                continue
            if _is(e, u, lambda v: v >= 0xDC00, lambda v: v >= 0xDC00):
                out.extend(_dec_error(enc, n, i, i + 2, 'illegal encoding', errors))
                i += 2
                continue
            if i + 3 >= n:
                if not final:
                    break
                out.extend(_dec_error(enc, n, i, n, 'unexpected end of data', errors))
                i = n
                continue
            u2 = (by[i + 2] + by[i + 3] * 256) if base.endswith('le') else (by[i + 2] * 256 + by[i + 3])
            if _is(e, u2, lambda v: 0xDC00 <= v <= 0xDFFF, lambda v: z3.And(v >= 0xDC00, v <= 0xDFFF)):
                out.append(0x10000 + (u - 0xD800) * 1024 + (u2 - 0xDC00))
                i += 4
            else:
                out.extend(_dec_error(enc, n, i, i + 2, 'illegal UTF-16 surrogate', errors))
                i += 2
        else:  # utf-32-le / utf-32-be
            if i + 3 >= n:
                if not final:
                    break
                out.extend(_dec_error(enc, n, i, n, 'truncated data', errors))
                i = n
                continue
            bs = by[i:i + 4]
            if base.endswith('be'):
                bs = bs[::-1]
            cp = bs[0] + bs[1] * 256 + bs[2] * 65536 + bs[3] * 16777216
            if _is(e, cp, lambda v: v <= 0x10FFFF and not 0xD800 <= v <= 0xDFFF,
                   lambda v: z3.And(v <= 0x10FFFF, z3.Or(v < 0xD800, v > 0xDFFF))):
                out.append(cp)
            else:
                out.extend(_dec_error(enc, n, i, i + 4, 'code point not in range(0x110000)', errors))
            i += 4
    res = SymStr.mk(_simp(out))
    return (res, i) if return_consumed else res


# ---------------------------------------------------------------------- codecs module facade

def _issym(x):
    return isinstance(x, SymStr) and not x.is_concrete()


def _cat(a, b):
    if isinstance(a, SymStr) or isinstance(b, SymStr):
        if not len(a):
            return b
        if not len(b):
            return a
        return (a if isinstance(a, SymStr) else SymBytes(list(a))) + b
    return bytes(a) + bytes(b)


def _sniff(enc, data, final):
    """(base encoding, bytes to skip) for the BOM-sensing encodings, None = need more data"""
    e = eng() if active() else None
    by = data.ch if isinstance(data, SymStr) else list(data)
    n = len(by)
    if enc == 'utf-8-sig':
        bom = [0xEF, 0xBB, 0xBF]
        for k in range(min(n, 3)):
            if not _is(e, by[k], lambda v, k=k: v == bom[k], lambda v, k=k: v == bom[k]):
                return 'utf-8', 0
        if n >= 3:
            return 'utf-8', 3
        return ('utf-8', 0) if final else None
    w = 2 if enc == 'utf-16' else 4
    if n < w:
        return (enc + '-le', 0) if final else None
    le = [0xFF, 0xFE] + ([0, 0] if w == 4 else [])
    be = ([0, 0] if w == 4 else []) + [0xFE, 0xFF]
    if all(_is(e, by[k], lambda v, k=k: v == le[k], lambda v, k=k: v == le[k]) for k in range(w)):
        return enc + '-le', w
    if all(_is(e, by[k], lambda v, k=k: v == be[k], lambda v, k=k: v == be[k]) for k in range(w)):
        return enc + '-be', w
    return enc + '-le', 0


class ModelIncrementalDecoder:
    """incremental decoder over the modelled encodings (accepts bytes and SymBytes)"""

    def __init__(self, enc, errors='strict'):
        self.enc = canonical(enc)
        self.errors = errors
        self.buf = b''
        self.base = None if self.enc in ('utf-8-sig', 'utf-16', 'utf-32') else self.enc

    def decode(self, input, final=False):
        if isinstance(input, str) and not input:
            input = b''
        data = _cat(self.buf, input)
        if self.base is None:
            r = _sniff(self.enc, data, final)
            if r is None:
                self.buf = data
                return ''
            self.base, skip = r
            data = data[skip:]
        if isinstance(data, (bytes, bytearray)):
            data = SymBytes(list(data))
        saved = FORCE_MODEL
        out, consumed = _decode_forced(data, self.base, self.errors, final)
        self.buf = data[consumed:]
        if isinstance(self.buf, SymStr) and self.buf.is_concrete():
            self.buf = self.buf.concrete()
        return out

    def reset(self):
        self.buf = b''
        self.base = None if self.enc in ('utf-8-sig', 'utf-16', 'utf-32') else self.enc

    def getstate(self):
        raise Unsupported('getstate on model decoder')


def _decode_forced(data, base, errors, final):
    global FORCE_MODEL
    saved = FORCE_MODEL
    FORCE_MODEL = True
    try:
        return decode(data, base, errors, final=final, return_consumed=True)
    finally:
        FORCE_MODEL = saved


class ModelIncrementalEncoder:
    def __init__(self, enc, errors='strict'):
        self.enc = canonical(enc)
        self.errors = errors
        self.first = True

    def encode(self, input, final=False):
        enc = self.enc
        if not self.first or not len(input):
            enc = {'utf-8-sig': 'utf-8', 'utf-16': 'utf-16-le', 'utf-32': 'utf-32-le'}.get(enc, enc)
        if len(input):
            self.first = False
        if not len(input):
            return b''
        return encode(input, enc, self.errors)

    def reset(self):
        self.first = True


class CodecsFacade:
    """stands in for the `codecs` module inside lifted modules"""

    def __getattr__(self, name):
        return getattr(_codecs, name)

    @staticmethod
    def _modelled(encoding):
        try:
            return canonical(encoding) in SUPPORTED
        except LookupError:
            return False

    @staticmethod
    def _sym_lookup_name(name):
        """Decide codecs.lookup for a name with <= 2 symbolic characters.  CPython normalises the UTF-8 bytes of the
        name (_Py_normalize_encoding): ASCII letters, digits and '.' are kept (lower-cased), every other byte is a
        separator (runs collapse to one '_'), an embedded NUL is a ValueError.  So a symbolic character matters only
        through: NUL / one of the 63 kept characters (which one) / anything else (all alike, '_' stands for them).
        Returns a concrete name that resolves exactly like the symbolic one on this path."""
        import itertools
        from .mask import Mask
        e = eng()
        pos = [i for i, c in enumerate(name.ch) if not isinstance(c, int)]
        if len(pos) > 2:
            raise Unsupported('codecs.lookup of an encoding name with more than 2 symbolic characters')
        kept = Mask.of('0123456789abcdefghijklmnopqrstuvwxyzABCDEFGHIJKLMNOPQRSTUVWXYZ.')
        cls = {}
        for i in pos:
            c = name.ch[i]
            if e.branch(c == 0):
                raise ValueError('embedded null character')
            cls[i] = 'kept' if e.branch(kept.formula(c)) else 'sep'
        base = [c if isinstance(c, int) else ord('_') for c in name.ch]
        keptpos = [i for i in pos if cls[i] == 'kept']
        if not keptpos:
            return ''.join(map(chr, base))
        alphabet = [ord(x) for x in '0123456789abcdefghijklmnopqrstuvwxyzABCDEFGHIJKLMNOPQRSTUVWXYZ.']
        good = []
        for combo in itertools.product(alphabet, repeat=len(keptpos)):
            cand = list(base)
            for i, v in zip(keptpos, combo):
                cand[i] = v
            text = ''.join(map(chr, cand))
            try:
                _codecs.lookup(text)
            except LookupError:
                continue
            good.append((combo, text))
        for combo, text in good:
            if e.branch(z3.And(*[name.ch[i] == v for i, v in zip(keptpos, combo)])):
                return text
        # none of the resolving spellings: any representative of the rest fails alike
        for combo in itertools.product(alphabet, repeat=len(keptpos)):
            if all(combo != g[0] for g in good):
                cand = list(base)
                for i, v in zip(keptpos, combo):
                    cand[i] = v
                return ''.join(map(chr, cand))
        raise Unsupported('codecs.lookup: every spelling resolves')

    def lookup(self, name):
        if isinstance(name, SymStr):
            if not name.is_concrete():
                name = CodecsFacade._sym_lookup_name(name)
            else:
                name = name.concrete()
        info = _codecs.lookup(name)
        if active() and self._modelled(name):
            return _ModelInfo(info, name, self)
        return info

    def getdecoder(self, encoding):
        real = _codecs.getdecoder(encoding)
        if not self._modelled(encoding):
            return real

        def decoder(input, errors='strict', **kw):
            if _issym(input):
                return decode(input, encoding, errors), len(input)
            if isinstance(input, SymStr):
                input = input.concrete()
            return real(input, errors, **kw)
        return decoder

    def getencoder(self, encoding):
        real = _codecs.getencoder(encoding)
        if not self._modelled(encoding):
            return real

        def encoder(input, errors='strict', **kw):
            if _issym(input):
                return encode(input, encoding, errors), len(input)
            if isinstance(input, SymStr):
                input = input.concrete()
            return real(input, errors, **kw)
        return encoder

    def getincrementaldecoder(self, encoding):
        if active() and self._modelled(encoding):
            return lambda errors='strict': ModelIncrementalDecoder(encoding, errors)
        return _codecs.getincrementaldecoder(encoding)

    def getincrementalencoder(self, encoding):
        if active() and self._modelled(encoding):
            return lambda errors='strict': ModelIncrementalEncoder(encoding, errors)
        return _codecs.getincrementalencoder(encoding)


class _ModelInfo:
    """CodecInfo whose incremental coders accept symbolic data"""

    def __init__(self, info, name, facade):
        self._info = info
        self._name = name
        self.incrementalencoder = facade.getincrementalencoder(name)
        self.incrementaldecoder = facade.getincrementaldecoder(name)
        self.encode = facade.getencoder(name)
        self.decode = facade.getdecoder(name)

    def __getattr__(self, k):
        return getattr(self._info, k)

    def __getitem__(self, i):
        return (self.encode, self.decode, self._info.streamreader, self._info.streamwriter)[i]

    def __iter__(self):
        return iter((self.encode, self.decode, self._info.streamreader, self._info.streamwriter))


codecs_facade = CodecsFacade()
