"""Reference tokenizer driver (C05), written from the documented contract:

* at each position try the productions in table order; the first that matches wins and exactly
  its match is consumed;
* IDENT directly followed by '(' defers to FUNCTION, unless the ident is 'and';
* '@charset ' is recognised at offset 0 (after a BOM) and, misplaced, as ATKEYWORD '@charset'
  followed by a space; the reserved at-keywords map to their own token types;
* in full-sheet mode an unterminated comment, string or url( is completed at the end of input and
  exactly one EOF follows;
* value = span with CSS hex escapes decoded (CSS 2.1 4.1.3) in the token types that may contain
  them, backslash-newline removed inside strings;
* line = 1 + number of line feeds before the token, col = 1 + distance to the last line feed.

It shares only the *compiled production patterns* with the implementation (the lexical grammar
itself is checked against an independent grammar by the classification lemmas); bookkeeping,
positions and the escape decoder are independent.  Returns (type, value, line, col, start, end).
"""
from ._ops import isin, hexval, tochr, cat

RESERVED = {
    '@font-face': 'FONT_FACE_SYM', '@import': 'IMPORT_SYM', '@media': 'MEDIA_SYM',
    '@namespace': 'NAMESPACE_SYM', '@page': 'PAGE_SYM', '@variables': 'VARIABLES_SYM',
}
HEX = '0123456789abcdefABCDEF'
# token types whose value has hex escapes decoded (the types that can contain an escape)
DECODED = ('IDENT', 'FUNCTION', 'DIMENSION', 'HASH', 'STRING', 'INVALID', 'URI', 'UNICODE-RANGE')


def decode_hex_escapes(s):
    """\\HHHHHH (1-6 hex digits) + one optional whitespace (CRLF counts as one) -> the character,
    if it is a valid code point; everything else unchanged"""
    out = []
    i = 0
    n = len(s)
    while i < n:
        c = s[i]
        if c == '\\' and i + 1 < n and isin(s[i + 1], HEX):
            j = i + 1
            while j < n and j < i + 7 and isin(s[j], HEX):
                j += 1
            num = hexval(s[i + 1:j])
            k = j
            if k < n:
                if s[k] == '\r' and k + 1 < n and s[k + 1] == '\n':
                    k += 2
                elif isin(s[k], ' \t\r\n\f'):
                    k += 1
            if num <= 0x10FFFF:
                out.append(tochr(num))
            else:
                out.append(s[i:k])
            i = k
        else:
            out.append(c)
            i += 1
    return cat(out)


def strip_escaped_newlines(s):
    out = []
    i = 0
    n = len(s)
    while i < n:
        c = s[i]
        if c == '\\' and i + 1 < n and isin(s[i + 1], '\n\r\f'):
            if s[i + 1] == '\r' and i + 2 < n and s[i + 2] == '\n':
                i += 3
            else:
                i += 2
        else:
            out.append(c)
            i += 1
    return cat(out)


def simple_unescape_lower(s):
    """normalised name: backslash before a non-hex character dropped, lower-cased"""
    out = []
    i = 0
    n = len(s)
    while i < n:
        c = s[i]
        if c == '\\' and i + 1 < n and not isin(s[i + 1], HEX):
            out.append(s[i + 1])
            i += 2
        else:
            out.append(c)
            i += 1
    return cat(out).lower()


def ref_tokenize(text, productions, fullsheet=False, do_comments=True):
    """productions: ordered list of (name, match) as compiled by the implementation"""
    prods = dict(productions)
    toks = []   # (type, value, start, end)
    n = len(text)
    pos = 0
    m = prods['BOM'](text, 0)
    if m:
        toks.append(('BOM', m.group(0), 0, m.end()))
        pos = m.end()
    if text[pos:pos + 9] == '@charset ':
        toks.append(('CHARSET_SYM', '@charset ', pos, pos + 9))
        pos += 9
    general = [(k, f) for k, f in productions if k != 'BOM']
    while pos < n:
        done = False
        for name, matcher in general:
            if fullsheet and name == 'CHAR' and text[pos:pos + 2] == '/*':
                # unterminated comment (the COMMENT production did not match): completed at EOF
                if do_comments:
                    toks.append(('COMMENT', cat([text[pos:], '*/']), pos, n))
                pos = n
                done = True
                break
            m = matcher(text, pos)
            if not m:
                continue
            end = m.end()
            span = text[pos:end]
            if name == 'IDENT' and end < n and text[end] == '(' and span.lower() != 'and':
                continue
            value = span
            if fullsheet:
                if name == 'INVALID' and end == n:
                    name, value = 'STRING', cat([span, span[0]])
                elif name == 'FUNCTION' and simple_unescape_lower(decode_hex_escapes(span)) == 'url(':
                    for closing in ("')", '")', ')'):
                        cand = cat([text[pos:], closing])
                        m2 = prods['URI'](cand)
                        if m2:
                            name, value, end = 'URI', m2.group(0), pos + m2.end()
                            break
            if name == 'ATKEYWORD':
                key = simple_unescape_lower(decode_hex_escapes(span))
                if isin(key, RESERVED):
                    for k, v in RESERVED.items():
                        if key == k:
                            name = v
                elif span == '@charset' and text[end:end + 1] == ' ':
                    name, value, end = 'CHARSET_SYM', '@charset ', end + 1
            if name in DECODED:
                value = decode_hex_escapes(value)
                if name in ('STRING', 'INVALID'):
                    value = strip_escaped_newlines(value)
            if name != 'COMMENT' or do_comments:
                toks.append((name, value, pos, end))
            pos = end
            done = True
            break
        if not done:
            raise AssertionError('no production matched at %d' % pos)
    out = []
    for name, value, start, end in toks:
        line, col = linecol(text, start)
        out.append((name, value, line, col, start, end))
    if fullsheet:
        line, col = linecol(text, pos)
        out.append(('EOF', '', line, col, pos, pos))
    return out


def linecol(text, start):
    """position of offset start (which may lie past the end after a completion)"""
    upto = text[:start]
    extra = start - len(upto)
    nl = upto.count('\n')
    last = upto.rfind('\n')
    return 1 + nl, len(upto) - last + extra
