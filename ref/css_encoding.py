"""Reference for C07: encoding detection per CSS 2.1 section 4.4 as the property states it -
BOM first, then an ASCII-compatible '@charset "..."' at offset 0 (and its UTF-16/32 transcodings,
which fix the encoding family without naming it explicitly), else UTF-8 - written as a decision
list over the complete input.  Works on bytes and on SX SymBytes (comparisons may be symbolic)."""

PREFIX = b'@charset "'


def _starts(data, pat):
    return len(data) >= len(pat) and data[:len(pat)] == bytes(pat)


def detect_final(data):
    """(encoding, explicit) for a complete input"""
    if _starts(data, b'\xef\xbb\xbf'):
        return ('utf-8-sig', True)
    if _starts(data, b'\xff\xfe\x00\x00') or _starts(data, b'\x00\x00\xfe\xff'):
        return ('utf-32', True)
    if _starts(data, b'\xff\xfe') or _starts(data, b'\xfe\xff'):
        return ('utf-16', True)
    if _starts(data, PREFIX):
        # name up to the closing quote
        for i in range(len(PREFIX), len(data)):
            if data[i] == 0x22:
                return (data[len(PREFIX):i], True)
        return ('utf-8', False)
    # '@c' transcoded: the family is known, the decision is implicit
    if _starts(data, b'@\x00\x00\x00'):
        return ('utf-32-le', False)
    if _starts(data, b'\x00\x00\x00@'):
        return ('utf-32-be', False)
    if _starts(data, b'@\x00c\x00'):
        return ('utf-16-le', False)
    if _starts(data, b'\x00@'):
        return ('utf-16-be', False)
    return ('utf-8', False)


def detect_unicode_final(text):
    pre = '@charset "'
    if len(text) >= len(pre) and text[:len(pre)] == pre:
        for i in range(len(pre), len(text)):
            if text[i] == '"':
                return (text[len(pre):i], True)
    return ('utf-8', False)


def fix_encoding_final(text, encoding):
    """header name replaced by encoding (utf-8-sig is written as utf-8); anything else unchanged"""
    pre = '@charset "'
    if len(text) > len(pre) and text[:len(pre)] == pre:
        for i in range(len(pre), len(text)):
            if text[i] == '"':
                enc = 'utf-8' if encoding.replace('_', '-').lower() == 'utf-8-sig' else encoding
                return pre + enc + text[i:]
    return text
