"""Operations the reference models need on values that are either plain Python values (replay,
translation validation) or SX symbolic values (exploration).  sx is imported lazily so that
replays run without the symbolic layer loaded."""


def _sx():
    from sx import lift
    return lift


def isin(a, b):
    if type(a) in (str, int, bytes, bool, type(None)):
        return a in b
    return _sx()._sx_in(a, b)


def hexval(s):
    """value of a string of hex digits"""
    if type(s) is str:
        return int(s, 16)
    return _sx()._sx_int(s, 16)


def tochr(n):
    if type(n) is int:
        return chr(n)
    return _sx()._sx_chr(n)


def cat(parts):
    """concatenate str / SymStr parts"""
    if all(type(p) is str for p in parts):
        return ''.join(parts)
    from sx import symre
    return symre._join(parts, False)


def lower(s):
    return s.lower()


def is_true(x):
    return bool(x)
