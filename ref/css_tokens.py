"""Independent lexical grammar per token type (C05 classification lemmas).

Written from CSS 2.1 section 4.1.1 / Appendix G (the flex scanner is case-insensitive) with the
deviations cssutils documents in cssproductions.py: css3-syntax `nonascii` = [^\\0-\\177], idents
may start with up to two '-', numbers carry an optional sign.  Nothing here is derived from the
implementation's MACROS/PRODUCTIONS tables."""

nonascii = r'[^\x00-\x7f]'
unicode_ = r'\\[0-9a-fA-F]{1,6}(?:\r\n|[ \n\r\t\f])?'
escape = r'(?:%s|\\[^\n\r\f0-9a-fA-F])' % unicode_
nmstart = r'(?:[_a-zA-Z]|%s|%s)' % (nonascii, escape)
nmchar = r'(?:[_a-zA-Z0-9-]|%s|%s)' % (nonascii, escape)
ident = r'-{0,2}%s%s*' % (nmstart, nmchar)
name = r'%s+' % nmchar
num = r'[+-]?(?:[0-9]*\.[0-9]+|[0-9]+)'
nl = r'(?:\n|\r\n|\r|\f)'
string1 = r'"(?:[^\n\r\f\\"]|\\%s|%s)*"' % (nl, escape)
string2 = r"'(?:[^\n\r\f\\']|\\%s|%s)*'" % (nl, escape)
string = r'(?:%s|%s)' % (string1, string2)
w = r'[ \t\r\n\f]*'
urlchar = r'(?:[!#$%%&*-~]|%s|%s)' % (nonascii, escape)

GRAMMAR = {
    'IDENT': ident,
    'FUNCTION': ident + r'\(',
    'ATKEYWORD': '@' + ident,
    'HASH': '#' + name,
    'STRING': string,
    'URI': r'[uU][rR][lL]\(%s(?:%s|%s*)%s\)' % (w, string, urlchar, w),
    'NUMBER': num,
    'PERCENTAGE': num + '%',
    'DIMENSION': num + ident,
    'UNICODE-RANGE': r'[uU]\+[0-9a-fA-F?]{1,6}(?:-[0-9a-fA-F]{1,6})?',
    'S': r'[ \t\r\n\f]+',
    'COMMENT': r'/\*[^*]*\*+(?:[^/*][^*]*\*+)*/',
    'CDO': r'<!--', 'CDC': r'-->', 'INCLUDES': r'~=', 'DASHMATCH': r'\|=',
    'PREFIXMATCH': r'\^=', 'SUFFIXMATCH': r'\$=', 'SUBSTRINGMATCH': r'\*=',
}

DECODED = ('IDENT', 'FUNCTION', 'DIMENSION', 'HASH', 'STRING', 'URI', 'UNICODE-RANGE')

SEP_TYPES = {';': ['CHAR'], ' ': ['S'], ')': ['CHAR'], '{': ['CHAR']}

RESERVED = {
    '@font-face': 'FONT_FACE_SYM', '@import': 'IMPORT_SYM', '@media': 'MEDIA_SYM',
    '@namespace': 'NAMESPACE_SYM', '@page': 'PAGE_SYM', '@variables': 'VARIABLES_SYM',
}

# lexeme lengths explored per type: (min, max_quick, max_thorough)
LENGTHS = {
    'IDENT': (1, 4, 5), 'FUNCTION': (2, 4, 5), 'ATKEYWORD': (2, 4, 6), 'HASH': (2, 4, 5),
    'STRING': (2, 4, 5), 'URI': (5, 6, 7), 'NUMBER': (1, 4, 6), 'PERCENTAGE': (2, 4, 6),
    'DIMENSION': (2, 4, 5), 'UNICODE-RANGE': (3, 5, 7), 'S': (1, 3, 4), 'COMMENT': (4, 6, 7),
    'CDO': (4, 4, 4), 'CDC': (3, 3, 3), 'INCLUDES': (2, 2, 2), 'DASHMATCH': (2, 2, 2),
    'PREFIXMATCH': (2, 2, 2), 'SUFFIXMATCH': (2, 2, 2), 'SUBSTRINGMATCH': (2, 2, 2),
}


def separators(ttype):
    """separators after which the lexeme boundary is unambiguous"""
    if ttype in ('IDENT', 'ATKEYWORD', 'HASH', 'DIMENSION'):
        return [';', ')']       # a space could terminate a trailing hex escape
    if ttype == 'FUNCTION':
        return [';']            # ')' would complete url( to a URI
    if ttype == 'S':
        return [';']
    if ttype in ('NUMBER', 'PERCENTAGE', 'UNICODE-RANGE', 'STRING', 'URI', 'COMMENT',
                 'CDO', 'CDC'):
        return [';', ' ']
    return [';', ' ']


def _norm(s):
    """hex escapes decoded, simple escapes removed, lower-cased"""
    from .tokenizer_ref import decode_hex_escapes, simple_unescape_lower
    return simple_unescape_lower(decode_hex_escapes(s))


def expected_type(ttype, s):
    """token type the lexeme must be reported as (the reserved at-rules have their own types)"""
    if ttype == 'ATKEYWORD':
        key = _norm(s)
        for k, v in RESERVED.items():
            if key == k:
                return v
        return 'ATKEYWORD'
    if ttype == 'FUNCTION' and s[:-1].lower() == 'and':
        # documented exception: 'and(' stays IDENT 'and' + '(' (media queries)
        return None
    return ttype
