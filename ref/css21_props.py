"""CSS 2.1 (REC 2011) value grammars for the properties whose definition is a keyword list or a
single <length>, <percentage>, <number>, <integer>, <color> or <uri> (optionally with keywords),
typed from the specification's property index (Appendix F) and section 4.3 - independently of
cssutils/profiles.py.  Each entry is a Python regular expression for the *whole value*, to be read
case-insensitively over ASCII (CSS keywords, units and hex digits are ASCII case-insensitive);
white space inside rgb()/url() is CSS white space only."""

W = r'[ \t\r\n\f]*'
NUM = r'[+-]?(?:[0-9]+|[0-9]*\.[0-9]+)'
INT = r'[+-]?[0-9]+'
ZERO = r'[+-]?(?:0+|0*\.0+)'
LENGTH = r'(?:%s(?:em|ex|px|in|cm|mm|pt|pc)|%s)' % (NUM, ZERO)
PERCENTAGE = NUM + '%'
NL = r'(?:\n|\r\n|\r|\f)'
ESC = r'(?:\\[0-9a-f]{1,6}(?:\r\n|[ \n\r\t\f])?|\\[^\n\r\f0-9a-f])'
STRING = r'''(?:"(?:[^\n\r\f\\"]|\\%s|%s)*"|'(?:[^\n\r\f\\']|\\%s|%s)*')''' % (NL, ESC, NL, ESC)
URI = r'url\(%s(?:%s|(?:[!#$%%&*-\[\]-~]|[^\x00-\x7f]|%s)*)%s\)' % (W, STRING, ESC, W)
NAMED = ('maroon|red|orange|yellow|olive|purple|fuchsia|white|lime|green|navy|blue|aqua|teal|black|'
         'silver|gray')
SYSTEM = ('ActiveBorder|ActiveCaption|AppWorkspace|Background|ButtonFace|ButtonHighlight|ButtonShadow|'
          'ButtonText|CaptionText|GrayText|Highlight|HighlightText|InactiveBorder|InactiveCaption|'
          'InactiveCaptionText|InfoBackground|InfoText|Menu|MenuText|Scrollbar|ThreeDDarkShadow|'
          'ThreeDFace|ThreeDHighlight|ThreeDLightShadow|ThreeDShadow|Window|WindowFrame|WindowText')
COLOR = (r'(?:%s|%s|#[0-9a-f]{3}|#[0-9a-f]{6}|rgb\(%s%s%s,%s%s%s,%s%s%s\)|rgb\(%s%s%%%s,%s%s%%%s,%s%s%%%s\))'
         % (NAMED, SYSTEM, W, INT, W, W, INT, W, W, INT, W, W, NUM, W, W, NUM, W, W, NUM, W))
BORDER_STYLE = 'none|hidden|dotted|dashed|solid|double|groove|ridge|inset|outset'
BORDER_WIDTH = 'thin|medium|thick|' + LENGTH
TIME = r'%s(?:ms|s)' % NUM
FREQ = r'%s(?:hz|khz)' % NUM


def kw(*words):
    return '|'.join(words)


NONNEG_NUM = r'[+]?(?:[0-9]+|[0-9]*\.[0-9]+)'
NONNEG_LENGTH = r'(?:%s(?:em|ex|px|in|cm|mm|pt|pc)|%s)' % (NONNEG_NUM, ZERO)
NONNEG_PERCENTAGE = NONNEG_NUM + '%'

PROPS = {
    # CSS 2.1 15.7: negative values are not allowed
    'font-size': kw('xx-small', 'x-small', 'small', 'medium', 'large', 'x-large', 'xx-large', 'larger', 'smaller',
                    'inherit') + '|' + NONNEG_LENGTH + '|' + NONNEG_PERCENTAGE,
    'background-attachment': kw('scroll', 'fixed', 'inherit'),
    'background-color': COLOR + '|transparent|inherit',
    'background-image': URI + '|none|inherit',
    'background-repeat': kw('repeat', 'repeat-x', 'repeat-y', 'no-repeat', 'inherit'),
    'border-collapse': kw('collapse', 'separate', 'inherit'),
    'border-top-color': COLOR + '|transparent|inherit',
    'border-right-color': COLOR + '|transparent|inherit',
    'border-bottom-color': COLOR + '|transparent|inherit',
    'border-left-color': COLOR + '|transparent|inherit',
    'border-top-style': BORDER_STYLE + '|inherit',
    'border-right-style': BORDER_STYLE + '|inherit',
    'border-bottom-style': BORDER_STYLE + '|inherit',
    'border-left-style': BORDER_STYLE + '|inherit',
    'bottom': LENGTH + '|' + PERCENTAGE + '|auto|inherit',
    'top': LENGTH + '|' + PERCENTAGE + '|auto|inherit',
    'left': LENGTH + '|' + PERCENTAGE + '|auto|inherit',
    'right': LENGTH + '|' + PERCENTAGE + '|auto|inherit',
    'caption-side': kw('top', 'bottom', 'inherit'),
    'clear': kw('none', 'left', 'right', 'both', 'inherit'),
    'color': COLOR + '|inherit',
    'direction': kw('ltr', 'rtl', 'inherit'),
    'display': kw('inline', 'block', 'list-item', 'run-in', 'inline-block', 'table', 'inline-table',
                  'table-row-group', 'table-header-group', 'table-footer-group', 'table-row',
                  'table-column-group', 'table-column', 'table-cell', 'table-caption', 'none', 'inherit'),
    'empty-cells': kw('show', 'hide', 'inherit'),
    'float': kw('left', 'right', 'none', 'inherit'),
    'font-style': kw('normal', 'italic', 'oblique', 'inherit'),
    'font-variant': kw('normal', 'small-caps', 'inherit'),
    'font-weight': kw('normal', 'bold', 'bolder', 'lighter', '100', '200', '300', '400', '500', '600',
                      '700', '800', '900', 'inherit'),
    'letter-spacing': 'normal|' + LENGTH + '|inherit',
    'word-spacing': 'normal|' + LENGTH + '|inherit',
    'list-style-image': URI + '|none|inherit',
    'list-style-position': kw('inside', 'outside', 'inherit'),
    'list-style-type': kw('disc', 'circle', 'square', 'decimal', 'decimal-leading-zero', 'lower-roman',
                          'upper-roman', 'lower-greek', 'lower-latin', 'upper-latin', 'armenian',
                          'georgian', 'lower-alpha', 'upper-alpha', 'none', 'inherit'),
    'margin-top': LENGTH + '|' + PERCENTAGE + '|auto|inherit',
    'margin-right': LENGTH + '|' + PERCENTAGE + '|auto|inherit',
    'margin-bottom': LENGTH + '|' + PERCENTAGE + '|auto|inherit',
    'margin-left': LENGTH + '|' + PERCENTAGE + '|auto|inherit',
    'outline-color': COLOR + '|invert|inherit',
    'outline-style': 'none|dotted|dashed|solid|double|groove|ridge|inset|outset|inherit',
    'overflow': kw('visible', 'hidden', 'scroll', 'auto', 'inherit'),
    'page-break-after': kw('auto', 'always', 'avoid', 'left', 'right', 'inherit'),
    'page-break-before': kw('auto', 'always', 'avoid', 'left', 'right', 'inherit'),
    'page-break-inside': kw('avoid', 'auto', 'inherit'),
    'position': kw('static', 'relative', 'absolute', 'fixed', 'inherit'),
    'table-layout': kw('auto', 'fixed', 'inherit'),
    'text-align': kw('left', 'right', 'center', 'justify', 'inherit'),
    'text-indent': LENGTH + '|' + PERCENTAGE + '|inherit',
    'text-transform': kw('capitalize', 'uppercase', 'lowercase', 'none', 'inherit'),
    'unicode-bidi': kw('normal', 'embed', 'bidi-override', 'inherit'),
    'vertical-align': kw('baseline', 'sub', 'super', 'top', 'text-top', 'middle', 'bottom', 'text-bottom',
                         'inherit') + '|' + PERCENTAGE + '|' + LENGTH,
    'visibility': kw('visible', 'hidden', 'collapse', 'inherit'),
    'white-space': kw('normal', 'pre', 'nowrap', 'pre-wrap', 'pre-line', 'inherit'),
    'z-index': 'auto|' + INT + '|inherit',
    'orphans': INT + '|inherit',
    'widows': INT + '|inherit',
    'speak': kw('normal', 'none', 'spell-out', 'inherit'),
    'speak-header': kw('once', 'always', 'inherit'),
    'speak-numeral': kw('digits', 'continuous', 'inherit'),
    'speak-punctuation': kw('code', 'none', 'inherit'),
    'pitch-range': NUM + '|inherit',
    'richness': NUM + '|inherit',
    'stress': NUM + '|inherit',
    'volume': NUM + '|' + PERCENTAGE + '|silent|x-soft|soft|medium|loud|x-loud|inherit',
    'speech-rate': NUM + '|x-slow|slow|medium|fast|x-fast|faster|slower|inherit',
    'pitch': FREQ + '|x-low|low|medium|high|x-high|inherit',
    'pause-after': TIME + '|' + PERCENTAGE + '|inherit',
    'pause-before': TIME + '|' + PERCENTAGE + '|inherit',
    'cue-after': URI + '|none|inherit',
    'cue-before': URI + '|none|inherit',
}
