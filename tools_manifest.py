#!/usr/bin/env python3
"""Regenerates MANIFEST.json from the table below (single source of truth for the checks)."""
import json
import os

HERE = os.path.dirname(os.path.abspath(__file__))
props = [json.loads(l) for l in open(os.path.join(HERE, 'properties.jsonl'))]

TECH = ('dynamic symbolic execution of the real (AST-lifted) code over z3: inputs are solver '
        'variables, every feasible path explored within the stated bounds, assertion discharged '
        'per path by the solver; counterexamples replayed on the unlifted package')

CHECKS = {
    'C04': dict(
        text='Bounded symbolic model checking of error containment on the real parser: a damage string of '
             'every length up to the bound (kept on a path only if the solver-decided tokenisation shows it '
             'lexically balanced and token-independent of the carrier) is inserted at declaration and '
             'statement boundaries of 19 carriers; per path the solver proves that the DOM of the damaged '
             'sheet is the DOM without the following construct plus that construct, and starts with the '
             'preceding construct - whatever the damage itself turns into. Truncation of two skeleton sheets '
             'at every position is enumerated concretely.',
        note='Trusted: z3; symbolic regex; DOM projection; the balance / independence predicate is computed '
             'with the implementation\'s own tokenizer (its conformance is C05\'s subject).',
        design='3 C04'),
    'C05': dict(
        text='Bounded symbolic model checking of the real Tokenizer.tokenize: every Unicode text up '
             'to the length bound (each character a z3 variable over 0..0x10FFFF) is covered by '
             'path classes chosen by the code itself; per path the solver proves token values and '
             'positions equal to an independent reference driver, and each grammar lexeme is '
             'classified as its token type. Holds for all texts within the bound; nothing is '
             'claimed beyond it.',
        note='Trusted: z3; the symbolic regex interpreter sx/symre.py (priority semantics of the '
             'live compiled patterns; validated differentially against re); Unicode tables of the '
             'running interpreter; reference driver ref/tokenizer_ref.py and grammar '
             'ref/css_tokens.py (written from CSS 2.1 4.1 and the documented contract).',
        design='3 C05'),
    'C01': dict(
        text='Bounded symbolic model checking of the whole public pipeline (parse -> serialise -> parse of '
             'the serialised bytes -> serialise) on the real code: for each of ~130 concrete parser '
             'contexts (prefix, suffix) every Unicode infix up to the length bound is covered by path '
             'classes chosen by the code; on every path no exception may escape, the result must be a '
             'DOM object and the path must finish within its time budget; each path is also run '
             'concretely with validation on. Nothing is claimed for texts whose distinguishing part is '
             'longer than the bound beyond a listed context, nor for the polynomial-time clause.',
        note='Trusted: z3; symbolic regex layer and pure-Python codec models (validated differentially); '
             'reduced alphabet (all code points except non-ASCII cased letters, of which ~28 '
             'representatives are kept) for the infix; logging stubbed; fetchers are in-memory stubs.',
        design='3 C01'),
    'C02': dict(
        text='16 statements covering the documented grammar are token lists with typed gaps; a rendering is chosen by solver '
             'variables (filler of all optional gaps, of all required gaps, one special gap with its own filler - white space, '
             'line breaks, comments -, letter case of the case-insensitive tokens, quote style, one CSS escape of an ordinary '
             'name character in three styles). The canonical rendering must parse to the hand-written structure of the '
             'statement; every rendering must parse to the same DOM as the canonical one (comments removed and counted, '
             'separators kept); parseComments=False must remove exactly the comments, validate on/off must not change the '
             'DOM; two statements in one sheet must give the concatenation of their DOMs.',
        note='Finite-choice renderings: solver-driven enumeration (quick: uniform fillers x case x quote x escape, and every '
             'gap x every filler; thorough adds gap x case x quote, gap x uniform fillers, gap x escapes). Trusted: z3, the SUMMARY structures and sem() in harness/c02.py.',
        design='3 C02'),
    'C03': dict(
        text='Bounded symbolic model checking of serialise-then-parse on the real code: ~50 carrier sheets '
             'with one hole at each content position (strings, url(), hrefs, namespace URIs, attribute '
             'values, every identifier position, comments, unknown at-rule preludes, numbers); the hole '
             'ranges over every string up to the length bound; for sources the parser accepts as '
             'well-formed the solver proves, per path, that the reparsed DOM projection equals the '
             'original character for character and that the second serialisation is byte-identical; '
             'the same at node level (rule / declaration block / selector list / media list / value '
             'text set back on a fresh object).',
        note='Trusted: z3; symbolic regex and codec models; the DOM projection harness/projection.py; '
             'well-formedness = accepted without log message and lexically complete; reduced alphabet '
             'without lone surrogates; DOM structure reached only through the listed carriers.',
        design='3 C03'),
    'C06': dict(
        text='The preference object is symbolic: 14 boolean preferences are solver variables and 8 string '
             'preferences solver-driven choices; for each carrier sheet the real serializer is explored over all '
             'assignments (the kitchen-sink carrier over all assignments with at most two non-default preferences in '
             'the quick tier, over all assignments in the thorough tier); the engine forks only on preferences the '
             'serializer consults, so one path covers every value of the others - for unconsulted content '
             'preferences the documented effect is checked for both values. Per path: no exception, output without '
             'INVALID token, reparse equals an independently implemented expected(DOM, prefs), layout preferences '
             'change white space only, useDefaults() restores the default output; plus the minified preset.',
        note='Trusted: z3; harness/c06.py expected() as the statement of the documented effects; validOnly, '
             'lineNumbers and indentSpecificities held at their defaults; DOMs limited to the carriers.',
        design='3 C06'),
    'C07': dict(
        text='Bounded symbolic model checking of cssutils/codec.py: the detector on every byte string of length '
             '<= 4 (all bytes solver variables; plus @charset headers with symbolic names) is proved equal to the '
             'CSS 2.1 4.4 decision list when final, and when not final its answer is proved to be either "unknown '
             'yet" or the final answer of every extension (a second symbolic tail); the text-side detector and '
             'header rewriting on every prefix of the header; encode/decode round trips with symbolic bodies over '
             'ten encodings (decoding with the encoding given and auto-detected); chunking invariance of the '
             'incremental decoder and encoder with the cut position a solver variable.',
        note='Trusted: z3; the pure-Python codec models sx/pycodecs.py standing in for the C codecs (validated '
             'differentially); getstate/setstate and the stream classes are outside.',
        design='3 C07'),
    'C08': dict(
        text='Ladder: import chains of depth <= 2 (3 thorough) over a virtual fetcher; override, transport charset, content '
             'marker (BOM / @charset / none), bytes or text delivery and fetcher result (data / None / (None, None)) are '
             'solver-chosen per edge over four encodings that decode a probe to four different texts; every imported sheet '
             'must report the encoding the documented ladder gives, hold the probe decoded with exactly that encoding, and '
             'sheet.encoding must equal its @charset rule. Lossless: a character that is a solver variable (all of Unicode) at '
             'each of 17 content positions x target encodings ascii / iso-8859-1 / utf-8 / utf-16 set through sheet.encoding: '
             'cssText must decode in that encoding and decoding + reparsing (text and bytes interface) must give the same DOM '
             'projection and encoding - z3 validity over the character on the codec models.',
        note='Ladder jobs are finite-choice (solver-driven enumeration, bounded number of non-default choices); lossless jobs '
             'are solver-quantified. Trusted: z3, sx/pycodecs.py codec models (validated against the real codecs by C07 replays).',
        design='3 C08'),
    'C09': dict(
        text='Inductive step from an arbitrary valid state: the rule list holds up to N rule objects '
             'whose kind codes are z3 variables constrained only by the invariant the property '
             'states; one edit (insertRule / add / deleteRule by index or object / encoding / '
             'namespace mapping set / delete) with symbolic arguments runs on the real CSSStyleSheet '
             'code; the solver proves the invariant, parent links and unchanged-on-rejection on every '
             'path. Because the pre-state is arbitrary within the invariant this covers edit histories '
             'of any length over lists of at most N rules (N=4 quick, 6 thorough).',
        note='Trusted: z3; rule objects are minimal CSSRule subclasses exposing exactly the attributes '
             'the sheet code reads (stub fidelity listed in the evidence); counterexamples are replayed '
             'with real rule objects from an empty sheet through public calls (history found by search).',
        design='3 C09'),
    'C11': dict(
        text='One sheet holding a rule of every kind is built; each of 55 public mutators (text setters of sheet, every rule '
             'kind, declaration block, property, value, selector, selector list, media list, media query; insert / add; '
             'namespace mapping; encoding) is called with new content written from templates whose holes are filled '
             'with solver variables over all of Unicode, so the solver chooses the stage at which the call is rejected '
             '(at once, after an accepted part, inside a nested object). On every path that ends in an xml.dom.DOMException '
             'the projection of the whole sheet, its serialisation, namespace mapping, encoding and the text of the '
             'target must equal their value before the call. insertRule / deleteRule with a symbolic index; objects '
             'created read-only: every mutator must leave them unchanged.',
        note='Bounded: one fixed pre-state sheet (thorough: also after each of four groups of accepted edits), 200 templates, holes of length 1 (quick) / <= 2 (thorough). Trusted: z3, '
             'the projection in harness/projection.py.',
        design='3 C11'),
    'C12': dict(
        text='Bounded symbolic model checking of the frame condition and of two-call composition on the real '
             'code: for every parser context and every infix up to the bound, under each combination of '
             'library-wide and parser error mode, the state vector (error mode, serializer + preferences, '
             'profile registry, saved tokens) is proved equal before and after the call on every path, '
             'returning or raising, and a probe battery run afterwards equals its fresh-process result; '
             'byte input with symbolic bytes (decode failures decided by the codec model), fetchers failing '
             'at a symbolic call index, missing files, csscombine with symbolic arguments and caller preferences; '
             'parser reuse; a parser used after the caller changed the error mode (symbolic modes); DOM objects '
             'built / set from text with a symbolic hole outside any parser call (27 templates). An AST tripwire checks '
             'that the state vector covers every module-level mutable object of the current tree.',
        note='Trusted: z3; codec model; the probe battery stands for any later call; hidden state outside '
             'the listed vector would go unnoticed unless the tripwire reports a new module-level object.',
        design='3 C12'),
    'C13': dict(
        text='(1) Regular-language lemmas, unbounded in the length of the value: for 57 CSS 2.1 properties whose '
             'grammar is a keyword list or a single length / percentage / number / integer / colour / URI, the '
             'live macro-expanded validation pattern is translated to a z3 regular expression and compared, in '
             'both directions, with an independently typed CSS 2.1 grammar; unsat = the verdicts agree on every '
             'value; each witness is replayed through the real profile, classified, excluded by a regular '
             'constraint and the query repeated so that different disagreements are still found. (2)-(4) bounded '
             'symbolic model checking of the real code: lookup logic with symbolic verdict bits and symbolic '
             'property names; 15 value skeletons with every letter in symbolic case and symbolic gap fillers '
             '(verdict, value handed to validation, provenance, validate on/off, round trip); sheet/rule/block '
             'aggregation with symbolic per-declaration verdicts.',
        note='Trusted: z3 (regex theory and arithmetic); rx/translate.py (sre parse tree to z3 Re, alphabet '
             '0..0x2FFFF) and sx/symre.py; ref/css21_props.py typed from CSS 2.1 Appendix F and 4.3.',
        technique='SMT regular-language equivalence (z3 regex theory) of the live validation patterns against a '
                  'reference grammar, plus dynamic symbolic execution of the lookup / aggregation / spelling code',
        design='3 C13'),
    'C14': dict(
        text='Solver-driven exhaustive enumeration of all registry histories up to length L over an 11-operation '
             'menu (add / addProfiles / remove of three custom profiles incl. one that redefines a built-in token '
             'macro and another profile\'s macro, remove unknown, remove built-in, defaultProfiles); after every '
             'step the registry is compared with a fresh registry brought to the same content: names, known '
             'properties, every compiled pattern (string equality or, failing that, z3 regular-language '
             'equivalence over values of any length) and a verdict battery; rejected operations must change nothing.',
        note='Finite-choice throughout (leverage about 1): the solver contributes the unbounded pattern-equivalence '
             'lemmas, the histories are enumerated. Trusted: z3, rx/translate.py, the three-line content model.',
        design='3 C14'),
    'C10': dict(
        text='Inductive step on the real CSSStyleDeclaration: the pre-state is an arbitrary entry list of up to M entries '
             '(names that differ by case and escape, two values, both priorities) built from text; one operation '
             '(setProperty with replace/normalize on and off, removeProperty, item assignment incl. the tuple form, '
             'item deletion, attribute get/set/del by DOM name, cssText assignment) with menu arguments (four priority '
             'spellings, three value kinds) runs in lock-step with a reference ordered multimap; afterwards entries, '
             'effective value/priority, length, item, keys, iteration, membership and the reparsed cssText agree with '
             'the model. The same for the variables block. _toDOMname/_toCSSname on a name whose characters are solver '
             'variables (length <= 6 / 8): the round trip is the identity on every name whose parts have >= 2 letters; '
             'every known property name (read live): attribute access by DOM name addresses the hyphenated name.',
        note='The block harnesses are finite-choice (solver-driven enumeration, leverage about 1); the name mapping is '
             'solver-quantified over character variables. Trusted: z3, the reference model in harness/c10.py.',
        design='3 C10'),
    'C15': dict(
        text='Histories on the real sheet: a start sheet from a menu, then up to k operations chosen with their arguments by '
             'solver variables (mapping assignment and deletion, adding / inserting an @namespace rule, deleting a rule, '
             'adding a style rule with a namespaced selector, replacing a selector, changing a rule prefix, attaching a '
             'detached rule that carries its own namespace dictionary). After every operation: the mapping equals the '
             'effective @namespace rules recomputed by the harness, no URI is declared twice, every URI stored in a '
             'selector is declared, every selector still holds the (URI, local name) pairs it was created with, the '
             'serialisation parses and resolves to the same pairs, a rejected operation changed nothing, deleting a used '
             'namespace / using an undeclared prefix is rejected.',
        note='Finite-choice histories (k <= 2 quick, <= 3 thorough): solver-driven exhaustive enumeration within the bound '
             '(leverage about 1). Trusted: z3, effective() and pairs() in harness/c15.py.',
        design='3 C15'),
    'C16': dict(
        text='Selectors are assembled from a derivation of the CSS3 selector grammar chosen by solver variables (one and '
             'two compounds; every part kind alone and all pairs - triples in the thorough tier; four spellings of every '
             'pseudo / :not name; five gap fillers around the four combinators) with the expected specificity accumulated '
             'by the generator; the real Selector must report that specificity, serialise to a selector that reparses to '
             'the same sequence, keep the sequence of simple selectors and combinators whatever the gaps, and keep its '
             'specificity when attached to a sheet. SelectorList: order, whole-list rejection, append-moves-to-end.',
        note='Finite-choice: solver-driven exhaustive enumeration within the stated bound (leverage about 1). Trusted: '
             'z3, the counting menus in harness/c16.py.',
        design='3 C16'),
    'C17': dict(
        text='Step harness on the real MediaList / MediaQuery code: pre-state built from up to K menu items with every '
             'letter of the media types in symbolic case (solver variables) and an optional leading comment, stand-alone '
             'or owned by @media / @import; one operation (appendMedium, deleteMedium, item assignment, mediaText '
             'assignment) with a symbolic-case or invalid argument; the result is compared with a reference ordered-set '
             'model and with itself (mediaText reparses to an equal list; length, item(i) and iteration agree). Media '
             'queries from eight grammar shapes with symbolic digits survive parse/serialise/parse; one malformed member '
             'must invalidate the list.',
        note='Item choice is finite (solver-driven enumeration); letter case and digits are solver-quantified. Trusted: '
             'z3, the reference model in harness/c17.py.',
        design='3 C17'),
    'C18': dict(
        text='Bounded symbolic model checking of value normalisation on the real code: every decimal literal up to '
             'the digit bound (each digit a solver variable; sign, presence of integer/fraction part and unit by '
             'solver-driven choice) through tokenizer, DimensionValue and the serializer with omitLeadingZero '
             'symbolic - the typed accessors and the serialised text, read back by an independent decimal reader, '
             'are proved to denote exactly the same rational, unit and sign without redundant zeros; all 22^6 / 22^3 '
             'spellings of hash colours (channels, lossless shortening, minimizeColorHash symbolic); rgb()/rgba() '
             'with symbolic integers and percentages; component order and separators.',
        note="Trusted: z3 (linear integer arithmetic); the exact-decimal model of float()/'%f' (sx/symnum.py, valid "
             'up to 15 significant / 6 fractional digits); hsl()/hsla() and colour keywords are outside.',
        design='3 C18'),
    'C19': dict(
        text='URLs: a sheet with url() values at every nesting level and two @import rules; one URL at a time is written '
             'with a hole filled by solver variables over all of Unicode; getUrls must equal the harness\'s own document-order '
             'walk, replaceUrls must call the replacer once per URL, change nothing else, and be a no-op for the identity '
             '(symbolic equality of cssText). Flattening: import trees over a virtual file system chosen by solver variables '
             '(location of the top sheet, eight href forms, media, missing and unwrappable targets, eight url() forms, depth '
             '<= 2); resolveImports must keep cascade order and media wrapping, fetch each target once, and every url() / kept '
             '@import must resolve (urljoin) from the combined sheet to what it resolved to from its own sheet.',
        note='The URL jobs are solver-quantified over the hole characters; the flatten jobs are finite-choice (solver-driven '
             'enumeration with a bound on how many choices leave the first menu entry). Trusted: z3, urllib.parse.urljoin.',
        design='3 C19'),
    'C20': dict(
        text='Bounded symbolic model checking of encutils: getEncodingInfo with the three extractors as nondeterministic '
             'stubs (each answer a solver-driven choice), the HTTP media type a representative of each class with every '
             'letter in symbolic case and a symbolic subtype character (so the regex-based classification is decided by the '
             'solver), response present/absent - reported encoding and mismatch flag are compared with the documented '
             'table on every path; detectXMLEncoding on every text of length <= 4/5 with symbolic characters and on XML '
             'declarations with symbolic encoding names (BOM, declaration, default, includeDefault symbolic), stream '
             'position preserved.',
        note='Trusted: z3, symbolic regex layer, io.StringIO stand-in over symbolic text; html.parser / email.message based '
             'extractors are environment (stubs).',
        design='3 C20'),
}

NA_REASON = 'check not built yet (build in progress; DESIGN.md section 3 describes the planned harness)'


def main():
    checks = []
    for pid, c in sorted(CHECKS.items()):
        checks.append({
            'property_id': pid,
            'quick_cmd': './check %s --tier quick' % pid,
            'thorough_cmd': './check %s --tier thorough' % pid,
            'evidence_file': 'evidence/%s.json' % pid,
            'replay_cmd_template': './check %s --replay {path}' % pid,
            'engine': 'sx',
            'level_claimed': {'category': 'model_checking', 'text': c['text'],
                              'design_ref': 'DESIGN.md section ' + c['design']},
            'level_note': c['note'],
            'technique': c.get('technique', TECH),
        })
    na = [{'property_id': p['id'], 'reason': NA.get(p['id'], NA_REASON)}
          for p in props if p['id'] not in CHECKS]
    m = {
        'version': 1,
        'setup_cmd': './setup.sh',
        'hooks': {
            'guard': 'JARACO_CSSUTILS_VERIF',
            'enable': 'no hooks in /repo: instrumentation is applied outside the repository by the '
                      '/verif/sx import hook (AST lifting at load time, source read from /repo on every run)',
            'baseline_off_cmd': 'cd /repo && /venv/bin/python -m pytest -ra -q -p no:cacheprovider '
                                '--timeout=900 --continue-on-collection-errors',
            'source_commits': [],
            'add_only': True,
        },
        'engines': [
            {'name': 'sx', 'path': 'sx/', 'serves_properties': sorted(CHECKS),
             'kind_free_text': 'dynamic symbolic executor over z3 (SymInt/SymBool/SymStr proxies, '
                               'DFS by re-execution, incremental solver), symbolic regex with sre '
                               'priority semantics, AST-lifting import hook that runs /repo\'s '
                               'current source on symbolic values'},
        ],
        'checks': checks,
        'notes': 'See DESIGN.md. known_findings.json lists genuine defects recorded or fixed.',
        'not_applicable': na,
    }
    with open(os.path.join(HERE, 'MANIFEST.json'), 'w') as f:
        json.dump(m, f, indent=1)
    print('checks:', [c['property_id'] for c in checks], 'n/a:', len(na))


NA = {}

if __name__ == '__main__':
    main()
