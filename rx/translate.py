"""RX: regular-language lemmas in z3's regex theory (DESIGN 2.4).

The parse tree of a *live* compiled pattern (re._parser) is translated to a z3 Re term; language
questions (membership, inclusion, equivalence against an independent reference grammar) are then
decided by z3 for values of *any length*.  Anchors: a leading ^ and a trailing $ are interpreted
for fullmatch-style use ("the whole value"), with Python's '$' also accepting one trailing line
feed.  Alphabet: z3's character sort (code points 0..0x2FFFF); classes are clipped to it.
"""
import re as _re
import re._constants as _c
import re._parser as _parser

import z3

import sys
import os
sys.path.insert(0, os.path.dirname(os.path.dirname(os.path.abspath(__file__))))
from sx.mask import Mask  # noqa: E402
from sx import symre  # noqa: E402

ZMAX = 0x2FFFF


def _char(cp):
    return z3.Unit(z3.CharVal(cp)) if hasattr(z3, 'CharVal') else z3.StringVal(chr(cp))


def mask_re(mask):
    parts = []
    for lo, hi in mask.iv:
        if lo > ZMAX:
            continue
        hi = min(hi, ZMAX)
        if lo == hi:
            parts.append(z3.Re(_char(lo)))
        else:
            parts.append(z3.Range(_str(lo), _str(hi)))
    if not parts:
        return z3.Empty(z3.ReSort(z3.StringSort()))
    if len(parts) == 1:
        return parts[0]
    return z3.Union(*parts)


def _str(cp):
    return z3.Unit(z3.CharVal(cp))


EPS = None


def _eps():
    return z3.Re(z3.StringVal(''))


def _seq(sub, fl):
    parts = []
    trailing_dollar = False
    items = list(sub)
    for idx, (op, av) in enumerate(items):
        if op is _c.AT:
            if av in (_c.AT_BEGINNING, _c.AT_BEGINNING_STRING) and idx == 0:
                continue
            if av is _c.AT_END and idx == len(items) - 1:
                trailing_dollar = True
                continue
            if av is _c.AT_END_STRING and idx == len(items) - 1:
                continue
            raise NotImplementedError('anchor inside pattern: %s' % av)
        parts.append(_node(op, av, fl))
    r = z3.Concat(*parts) if len(parts) > 1 else (parts[0] if parts else _eps())
    if trailing_dollar:
        r = z3.Concat(r, z3.Option(z3.Re(z3.StringVal('\n'))))
    return r


def _node(op, av, fl):
    top = 255 if fl.bytes else 0x10FFFF
    if op is _c.LITERAL:
        return mask_re(symre._lit_mask(av, fl))
    if op is _c.NOT_LITERAL:
        return mask_re(symre._lit_mask(av, fl).neg(top))
    if op is _c.ANY:
        return mask_re(Mask.rng(0, top) if fl.dotall else Mask.of('\n').neg(top))
    if op is _c.IN:
        return mask_re(symre._set_mask(av, fl))
    if op is _c.BRANCH:
        alts = [_seq(a, fl) for a in av[1]]
        return z3.Union(*alts) if len(alts) > 1 else alts[0]
    if op is _c.SUBPATTERN:
        group, add, dele, p = av
        return _seq(p, fl.with_(add, dele) if (add or dele) else fl)
    if op in (_c.MAX_REPEAT, _c.MIN_REPEAT):
        lo, hi, p = av
        inner = _seq(p, fl)
        if hi == _c.MAXREPEAT:
            if lo == 0:
                return z3.Star(inner)
            if lo == 1:
                return z3.Plus(inner)
            return z3.Concat(z3.Loop(inner, lo, lo), z3.Star(inner))
        if lo == 0 and hi == 1:
            return z3.Option(inner)
        return z3.Loop(inner, lo, hi)
    raise NotImplementedError('regex node %s' % op)


_cache = {}


def to_z3(pattern, flags=0):
    """z3 Re for the language of strings s with re.fullmatch-like acceptance of `pattern`
    (pattern may carry its own ^...$ anchors as the profile patterns do)"""
    key = (pattern, int(flags))
    if key not in _cache:
        tree = _parser.parse(pattern, flags)
        fl = symre._Flags(tree.state.flags, isinstance(pattern, bytes))
        _cache[key] = _seq(tree, fl)
    return _cache[key]


def model_string(m, s):
    v = m.eval(s, model_completion=True)
    return v.as_string() if hasattr(v, 'as_string') else str(v)


def decode_z3_string(t):
    """z3 prints non-ASCII as \\u{..}"""
    import re
    return re.sub(r'\\u\{([0-9a-fA-F]+)\}', lambda m: chr(int(m.group(1), 16)), t)


def witness(in_re, not_in_re=None, extra=(), timeout_ms=20000):
    """a string in in_re and not in not_in_re (and satisfying extra constraints on the z3 string
    variable), or None if there is none; raises TimeoutError on unknown"""
    s = z3.String('v')
    sol = z3.Solver()
    sol.set('timeout', timeout_ms)
    sol.add(z3.InRe(s, in_re))
    if not_in_re is not None:
        sol.add(z3.Not(z3.InRe(s, not_in_re)))
    for e in extra:
        sol.add(e(s))
    r = sol.check()
    if r == z3.unsat:
        return None
    if r == z3.sat:
        return decode_z3_string(model_string(sol.model(), s))
    raise TimeoutError('z3 returned unknown')
