#!/bin/sh
# usage: tools/try_seed.sh <PROP> <patch.diff> [tier]  - applies a seeded change to /repo, runs the check, undoes it
id=$1; patch=$2; tier=${3:-quick}
cd /verif
git -C /repo apply "$patch" || { echo "patch does not apply"; exit 2; }
./check $id --tier $tier > /verif/scratch/seed_$id.out 2>&1
rc=$?
git -C /repo checkout -- .
echo "check exit=$rc"
grep -c "^VIOLATION" /verif/scratch/seed_$id.out
grep "^$id tier" /verif/scratch/seed_$id.out
grep -A2 "^VIOLATION" /verif/scratch/seed_$id.out | grep detail | head -3 | cut -c1-300
