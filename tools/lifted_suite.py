#!/usr/bin/env python3
"""Translation validation of the lifting (DESIGN 2.2): run the repository's pinned test-suite
against the *lifted* package in concrete mode; the set of passing tests must include BASELINE's
stable_pass.  Exit 0 if so, 3 (harness error) otherwise."""
import json
import os
import sys
import tempfile
import xml.etree.ElementTree as ET

VERIF = os.path.dirname(os.path.dirname(os.path.abspath(__file__)))
ROOT = os.environ.get('SX_ROOT', '/repo')


def main():
    sys.path.insert(0, VERIF)
    from sx import lift
    lift.install(ROOT)
    import pytest
    os.chdir(ROOT)
    sys.path.insert(0, ROOT)
    with tempfile.TemporaryDirectory() as d:
        xmlf = os.path.join(d, 'r.xml')
        pytest.main(['-q', '-p', 'no:cacheprovider', '--continue-on-collection-errors',
                     '--junitxml=' + xmlf, '-x' if '--x' in sys.argv else '-q'])
        tree = ET.parse(xmlf)
    import cssutils
    assert getattr(cssutils, '_sx_in', None) is not None, 'package was not lifted'
    passed = set()
    for tc in tree.iter('testcase'):
        if not any(ch.tag in ('failure', 'error', 'skipped') for ch in tc):
            passed.add('%s::%s' % (tc.get('classname'), tc.get('name')))
    base = json.load(open('/root/.vp/BASELINE.json'))['stable_pass'] \
        if os.path.exists('/root/.vp/BASELINE.json') else []
    missing = [t for t in base if t not in passed]
    print('lifted suite: %d passed; baseline stable_pass %d; missing %d' % (len(passed), len(base), len(missing)))
    for m in missing[:40]:
        print('  MISSING', m)
    return 3 if missing else 0


if __name__ == '__main__':
    sys.exit(main())
